#!/bin/bash
# Final sensitivity campaign: every seeded change (against the check of its property) and every
# mutant (against the checks it was written for), JOBS at a time, each job in its own reusable
# scratch worktree /tmp/fv-slot-<k> (removed at the end together with its build output).
#   tools/campaign.sh [JOBS]        results: seeded/*/check-result-final.txt, mutants/RESULTS-final.txt
cd "$(dirname "$0")/.."
JOBS="${1:-3}"
LIST=/tmp/fv-campaign-$$.list
: > "$LIST"
for d in seeded/C*; do
  [ -f "$d/patch.diff" ] || continue
  # ONLY_MISSING=1: keep results that are already there (an interrupted campaign is continued)
  if [ "${ONLY_MISSING:-0}" = 1 ] && grep -q "caught by" "$d/check-result-final.txt" 2>/dev/null; then continue; fi
  id=$(basename "$d"); echo "seed $d/patch.diff ${id%%-*}" >> "$LIST"
done
python3 - >> "$LIST" <<'PY'
import json
for m in json.load(open('mutants/index.json')):
    print('mutant', 'mutants/%s.diff' % m['name'], ' '.join(m['expected']))
PY
[ "${ONLY_MISSING:-0}" = 1 ] || : > mutants/RESULTS-final.txt
for k in $(seq 1 "$JOBS"); do
  (
    awk -v k="$k" -v n="$JOBS" 'NR % n == k % n' "$LIST" | while read -r kind patch props; do
      if [ "$kind" = seed ]; then
        SLOT=$k SKIP_TESTS=1 tools/run_mutant.sh "$patch" $props 2>&1 | grep "^MUTANT" | tee "$(dirname "$patch")/check-result-final.txt" | tail -1
      else
        SLOT=$k tools/run_mutant.sh "$patch" $props 2>&1 | grep "^MUTANT" | tee -a mutants/RESULTS-final.txt | tail -1
      fi
    done
  ) &
done
wait
for k in $(seq 1 "$JOBS"); do
  WT="/tmp/fv-slot-$k"; TAG="alt-$(echo -n "$WT" | md5sum | cut -c1-10)"
  rm -rf ".build/$TAG" ".build/$TAG-asan" ".build/$TAG-manifest" ".build/$TAG-out" .build/build-$TAG-*.log
  git -C /repo worktree remove --force "$WT" >/dev/null 2>&1
done
rm -f "$LIST"
echo "campaign done: $(cat seeded/*/check-result-final.txt | grep -c "missed by: none") seeded caught, $(cat seeded/*/check-result-final.txt | grep -c "missed by: C") seeded missed"

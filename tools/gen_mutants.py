#!/usr/bin/env python3
"""Generates the hand-written sensitivity mutants (DESIGN.md section 6) as patch files under
/verif/mutants/ from textual replacements applied to a scratch worktree of /repo."""
import os, subprocess, sys, json

WT = "/tmp/fv-mutgen"
OUT = os.path.join(os.path.dirname(os.path.dirname(os.path.abspath(__file__))), "mutants")

M = [
 # name, expected properties, file, old, new
 ("m01-realign-copies-one-byte-less", "C01 C02", "flussab/src/deferred_reader.rs",
  ".copy_within(self.pos_in_buf..self.pos_in_buf + self.valid_len, 0);",
  ".copy_within(\n                    self.pos_in_buf..self.pos_in_buf + self.valid_len.saturating_sub(1),\n                    0,\n                );"),
 ("m02-swar-threshold-7", "C13 C01 C14", "flussab/src/text.rs",
  "    if reader.buf_len() < offset + 8 {\n        return ascii_digits_multi_cold(reader, offset);",
  "    if reader.buf_len() < offset + 7 {\n        return ascii_digits_multi_cold(reader, offset);"),
 ("m03-btor2-cold-keyword-len", "C01 C03", "flussab-btor2/src/token.rs",
  "                    len = i + 1;\n                    c", "                    len = i;\n                    c"),
 ("m04-from-buf-reader-drops-buffered", "C02 C01", "flussab/src/deferred_reader.rs",
  "        if buf_data.is_empty() {", "        if buf_data.len() < 8 {"),
 ("m05-pos-of-buf-not-advanced", "C02 C01 C08", "flussab/src/deferred_reader.rs",
  "            self.pos_of_buf = self.pos_of_buf.wrapping_add(self.pos_in_buf);\n", ""),
 ("m06-is-at-end-ignores-valid-len", "C02", "flussab/src/deferred_reader.rs",
  "        self.complete && (self.valid_len == 0)", "        self.complete"),
 ("m07-interrupted-parked-as-error", "C02 C01", "flussab/src/deferred_reader.rs",
  "                Err(err) if err.kind() == io::ErrorKind::Interrupted => continue,\n", ""),
 ("m08-latch-reset-writer-swapped", "C03", "flussab-aiger/src/ascii.rs",
  "            Some(true) => self.writer.write_all_defer_err(b\" 1\\n\"),\n            Some(false) => self.writer.write_all_defer_err(b\"\\n\"),",
  "            Some(false) => self.writer.write_all_defer_err(b\" 1\\n\"),\n            Some(true) => self.writer.write_all_defer_err(b\"\\n\"),"),
 ("m09-header-writer-drops-nonzero-field", "C03", "flussab-aiger/src/binary.rs",
  "        while let Some((0, rest)) = fields.split_last() {\n            if rest.len() >= 5 {",
  "        while let Some((_, rest)) = fields.split_last() {\n            if rest.len() >= 8 {"),
 ("m10-ugt-ugte-names-swapped", "C03", "flussab-btor2/src/btor2.rs",
  "            BinaryOp::Ugt => \"ugt\",\n            BinaryOp::Sgt => \"sgt\",\n            BinaryOp::Ugte => \"ugte\",",
  "            BinaryOp::Ugt => \"ugte\",\n            BinaryOp::Sgt => \"sgt\",\n            BinaryOp::Ugte => \"ugt\","),
 ("m11-binary-delta-order", "C03", "flussab-aiger/src/binary.rs",
  "        self.write_binary_uint(delta_0);\n        self.write_binary_uint(delta_1);",
  "        self.write_binary_uint(delta_1);\n        self.write_binary_uint(delta_0);"),
 ("m12-cnf-eof-ignores-io-error", "C04", "flussab-cnf/src/token.rs",
  "    if input.reader.request_byte().is_none() && input.reader.io_error().is_none() {",
  "    if input.reader.request_byte().is_none() {"),
 ("m13-give-up-does-not-check-io-error", "C04", "flussab/src/text.rs",
  "        if let Err(err) = self.reader.check_io_error() {\n            return err.into();\n        }\n", ""),
 ("m14-aiger-input-symbol-guard-removed", "C05", "flussab-aiger/src/ascii.rs",
  "        let target = if self.parser.header.input_count > 0 {", "        let target = if self.parser.header.input_count < usize::MAX {"),
 ("m15-literal-range-off-by-one", "C06 C08", "flussab-cnf/src/token.rs",
  "                if (-limit..=limit).contains(&lit) {", "                if (-limit..=limit.saturating_add(1)).contains(&lit) {"),
 ("m16-var-count-check-removed", "C06", "flussab-cnf/src/token.rs",
  "            if count > L::MAX_DIMACS as usize {", "            if count > isize::MAX as usize {"),
 ("m17-clause-limit-eof-off-by-one", "C06", "flussab-cnf/src/wcnf.rs",
  "            if (!self.clause_limit_active || self.clause_count >= self.clause_limit)\n                && token::eof(input).matches()?",
  "            if (!self.clause_limit_active || self.clause_count + 1 >= self.clause_limit)\n                && token::eof(input).matches()?"),
 ("m18-cast-before-range-check", "C06", "flussab-cnf/src/token.rs",
  "                if (-limit..=limit).contains(&lit) {", "                if (-limit..=limit).contains(&L::from_dimacs(lit).dimacs()) {"),
 ("m19-comment-keeps-following-indent", "C07", "flussab-cnf/src/token.rs",
  "        input.line_at_offset(offset);\n        let offset = text::tabs_or_spaces(input.reader(), offset);\n        input.reader.advance(offset);\n        Res(Ok(()))\n    } else {\n        Fallthrough\n    }\n}\n\n#[inline]\npub fn interactive_strict_comment",
  "        input.line_at_offset(offset);\n        input.reader.advance(offset);\n        Res(Ok(()))\n    } else {\n        Fallthrough\n    }\n}\n\n#[inline]\npub fn interactive_strict_comment"),
 ("m20-end-of-word-without-cr", "C07", "flussab-cnf/src/token.rs",
  "        Some(b' ') | Some(b'\\t') | Some(b'\\r') | Some(b'\\n') | None\n    )\n}",
  "        Some(b' ') | Some(b'\\t') | Some(b'\\n') | None\n    )\n}"),
 ("m21-comment-line-start-off-by-one", "C08", "flussab-cnf/src/token.rs",
  "        let offset = text::next_newline(input.reader(), 1);\n        input.line_at_offset(offset);",
  "        let offset = text::next_newline(input.reader(), 1);\n        input.line_at_offset(offset + 1);"),
 ("m22-set-mark-removed-in-clause-loop", "C08", "flussab-cnf/src/token.rs",
  "                input.reader.set_mark();\n                if let Some(next_lit) = int(input)",
  "                if let Some(next_lit) = int(input)"),
 ("m23-interactive-newline-eats-indent", "C09", "flussab-cnf/src/token.rs",
  "    let offset = text::newline(input.reader(), 0);\n    if offset != 0 {\n        input.line_at_offset(offset);\n        input.reader.advance(offset);\n\n        Res(Ok(()))",
  "    let offset = text::newline(input.reader(), 0);\n    if offset != 0 {\n        input.line_at_offset(offset);\n        let offset = text::tabs_or_spaces(input.reader(), offset);\n        input.reader.advance(offset);\n\n        Res(Ok(()))"),
 ("m24-request-more-fills-chunk", "C09", "flussab/src/deferred_reader.rs",
  "            break;\n        }\n\n        true\n    }",
  "            break;\n        }\n\n        if !self.complete && self.valid_len < self.chunk_size {\n            return self.request_more();\n        }\n\n        true\n    }"),
 ("m25-realign-disabled", "C10", "flussab/src/deferred_reader.rs",
  "        let realign = self.pos_in_buf > self.chunk_size * 2;", "        let realign = self.pos_in_buf > self.chunk_size * 2 && self.valid_len == 0;"),
 ("m26-btor2-node-buf-not-cleared", "C10 C03 C01", "flussab-btor2/src/parser.rs",
  "                    self.node_buf.clear();\n", ""),
 ("m28-buffer-kept-while-error-parked", "C11", "flussab/src/deferred_writer.rs",
  "            self.panicked = false;\n        }\n        self.buf.clear();\n    }",
  "            self.panicked = false;\n            self.buf.clear();\n        }\n    }"),
 ("m29-write-through-while-error-parked", "C11", "flussab/src/deferred_writer.rs",
  "            // Silently discard data if we errored before but haven't reported it yet\n            if self.io_error.is_none() {\n                self.panicked = true;\n                if let Err(err) = self.write.write_all(buf) {",
  "            {\n                self.panicked = true;\n                if let Err(err) = self.write.write_all(buf) {"),
 ("m30-writer-error-not-cleared", "C11", "flussab/src/deferred_writer.rs",
  "        if let Some(err) = self.io_error.take() {\n            Err(err)\n        } else {\n            Ok(())\n        }\n    }\n}\n\nimpl Write for DeferredWriter",
  "        if let Some(err) = &self.io_error {\n            Err(io::Error::new(err.kind(), err.to_string()))\n        } else {\n            Ok(())\n        }\n    }\n}\n\nimpl Write for DeferredWriter"),
 ("m31-fill-forgets-to-skip-first-part", "C11", "flussab/src/deferred_writer.rs",
  "            self.buf.extend_from_slice(buf_first);\n            buf = buf_second;",
  "            self.buf.extend_from_slice(buf_first);\n            let _ = buf_second;"),
 ("m32-renumber-polarity-xor-missing", "C12", "flussab-aiger/src/aig.rs",
  "                        transferred: L::from_code(new_code ^ lit.code() ^ def.output.code()),",
  "                        transferred: L::from_code(new_code),"),
 ("m33-const-fold-wrong-operand", "C12", "flussab-aiger/src/aig.rs",
  "                        } else if codes[1] == 1 {\n                            folded = Some(def.inputs[0]);",
  "                        } else if codes[1] == 1 {\n                            folded = Some(def.inputs[1]);"),
 ("m34-gate-inputs-sorted-ascending", "C12", "flussab-aiger/src/aig.rs",
  "                    def.inputs.sort_unstable_by_key(|input| !input.code());", "                    def.inputs.sort_unstable_by_key(|input| input.code());"),
 ("m35-strash-ignores-polarity", "C12", "flussab-aiger/src/aig.rs",
  "                    let and_gate = OrderedAndGate { inputs: def.inputs };",
  "                    let and_gate = OrderedAndGate {\n                        inputs: def.inputs.map(|l| L::from_code(l.code() & !1)),\n                    };"),
 ("m36-swar-constant-typo", "C13 C06 C01", "flussab/src/text.rs",
  "wrapping_mul(6553601)", "wrapping_mul(6553600)"),
 ("m37-signed-swar-continuation-at-8", "C13", "flussab/src/text.rs",
  "        if matching_digits == 7 {", "        if matching_digits == 8 {"),
 ("m38-continuation-drops-mul-overflow", "C13 C06", "flussab/src/text.rs",
  "    let mut overflow = value.is_none();\n    let mut value = value.unwrap_or(I::zero());\n\n    while let Some(digit @ b'0'..=b'9') = reader.request_byte_at_offset(offset) {\n        offset += 1;\n\n        let (new_value, overflowed) = value.overflowing_mul(&I::from_u8(10).unwrap());\n        overflow |= overflowed;\n        value = new_value;\n\n        let (new_value, overflowed) = value.overflowing_add",
  "    let mut overflow = value.is_none();\n    let mut value = value.unwrap_or(I::zero());\n\n    while let Some(digit @ b'0'..=b'9') = reader.request_byte_at_offset(offset) {\n        offset += 1;\n\n        let (new_value, _) = value.overflowing_mul(&I::from_u8(10).unwrap());\n        value = new_value;\n\n        let (new_value, overflowed) = value.overflowing_add"),
 ("m40-read-size-assert-removed", "C14", "flussab/src/deferred_reader.rs",
  "                    assert!(\n                        n <= self.chunk_size,\n                        \"invariant of std::io::Read trait violated\"\n                    );\n", ""),
 ("m41-or-parse-runs-on-err", "C15", "flussab/src/parser.rs",
  "    pub fn or_parse(self, parse: impl FnOnce() -> Parsed<T, E>) -> Parsed<T, E> {\n        match self {\n            Fallthrough => parse(),",
  "    pub fn or_parse(self, parse: impl FnOnce() -> Parsed<T, E>) -> Parsed<T, E> {\n        match self {\n            Fallthrough | Res(Err(_)) => parse(),"),
 ("m42-and-also-runs-closure-twice-on-err", "C15", "flussab/src/parser.rs",
  "    fn and_do(mut self, action: impl FnOnce(&mut T)) -> Result<T, E> {\n        if let Ok(value) = &mut self {\n            action(value);\n        }\n        self",
  "    fn and_do(mut self, action: impl FnOnce(&mut T)) -> Result<T, E> {\n        if let Ok(value) = &mut self {\n            let mut copy = unsafe { std::ptr::read(value) };\n            action(&mut copy);\n            std::mem::forget(copy);\n        }\n        self"),
 ("m43-fixed-requests-whole-pattern", "C16 C09", "flussab/src/text.rs",
  "    // TODO can also be made faster, especially if `fixed` has a size known at compile time\n",
  "    // TODO can also be made faster, especially if `fixed` has a size known at compile time\n    input.request(offset + fixed.len());\n"),
 ("m44-newline-accepts-lone-cr-at-end", "C16", "flussab/src/text.rs",
  "        Some(b'\\r') if matches!(input.request_byte_at_offset(offset + 1), Some(b'\\n')) => {\n            offset + 2\n        }",
  "        Some(b'\\r') if matches!(input.request_byte_at_offset(offset + 1), Some(b'\\n') | None) => {\n            offset + 2\n        }"),
 ("m45-advance-stores-wrapped-length", "C14", "flussab/src/deferred_reader.rs",
  "        if overflow {\n            self.advance_cold();\n        }\n        self.valid_len = next_len;",
  "        self.valid_len = next_len;\n        if overflow {\n            self.advance_cold();\n        }"),
 ("m46-mark-not-rebased", "C02 C01 C08", "flussab/src/deferred_reader.rs",
  "            self.mark_in_buf = self.mark_in_buf.wrapping_sub(self.pos_in_buf);\n            self.pos_in_buf = 0;",
  "            self.pos_in_buf = 0;\n            self.mark_in_buf = self.mark_in_buf.wrapping_sub(self.pos_in_buf);"),
]

def sh(*a, **k):
    return subprocess.run(a, check=True, capture_output=True, text=True, **k).stdout

def main():
    subprocess.run(["git", "-C", "/repo", "worktree", "remove", "--force", WT], capture_output=True)
    sh("git", "-C", "/repo", "worktree", "add", "--detach", WT, "HEAD")
    os.makedirs(OUT, exist_ok=True)
    index = []
    try:
        for name, props, f, old, new in M:
            p = os.path.join(WT, f)
            s = open(p).read()
            if s.count(old) < 1:
                print("NOT FOUND", name); continue
            open(p, "w").write(s.replace(old, new, 1))
            d = sh("git", "-C", WT, "diff")
            open(os.path.join(OUT, name + ".diff"), "w").write(d)
            sh("git", "-C", WT, "checkout", "--", ".")
            index.append({"name": name, "expected": props.split(), "file": f})
    finally:
        subprocess.run(["git", "-C", "/repo", "worktree", "remove", "--force", WT], capture_output=True)
    json.dump(index, open(os.path.join(OUT, "index.json"), "w"), indent=1)
    print(len(index), "mutants written")

main()

#!/usr/bin/env python3
"""Generates /verif/MANIFEST.json from the table below (kept in one place so that the claimed
set, the not_applicable list and the commands cannot drift apart)."""
import json, os, sys

HERE = os.path.dirname(os.path.dirname(os.path.abspath(__file__)))

# id -> (level category, technique, level text, level note, design ref)
CLAIMED = {
    "C01": ("exploration",
            "differential property-based testing: one-shot delivery vs generated read schedule / chunk size / constructor, for all parsers, literal types and input classes; items and final outcome incl. line:column:message compared",
            "Every generated input (valid in three renderings, mutated, spliced, repository fixtures, arbitrary) is parsed once the way the unit tests do (single read) and once through a generated feed (1-byte reads, short reads, Interrupted, chunk 1..64/4096/default, from_buf_reader); the item sequences and the final outcome including error location and message must be identical. 120k pairs quick / 3M thorough plus long documents that realign with 1000/4096/16384-byte chunks, and a few documents with a single comment line of 65..72 MiB (which must also parse to a clean end).",
            "Trusts the scheduled source; a panic occurring identically in both runs is left to C05.",
            "DESIGN.md section 4, C01"),
    "C03": ("exploration",
            "round-trip property-based testing: parse(write(v)) == v over generated values of every writer's domain (all three AIGER writers, huge binary input counts, constructor-candidate BTOR2 constants) and parse(write(parse(t))) == parse(t) over accepted generated texts",
            "Generated abstract values for DIMACS (5 literal types), AIGER (5 literal types, arbitrary numbering, every section and symbol kind) and BTOR2 (every operator and constant form through the public constructors) are written with the crate's writers and parsed back through the streaming and the collecting APIs, one-shot and re-chunked; every accepted text from the input generators is rewritten from its parsed value and parsed again. Generator feature classes (each latch reset form, symbol kind, operator, 9+-byte delta codes, ...) must all occur, otherwise the run is inconclusive. Oracle forward-at-buffer-end writes each document again with a chosen token 0..45 bytes in front of the end of the writer's 16 KiB buffer (64-bit extreme weights/groups/deltas): the text must not change and nothing may panic.",
            "The value domain is stated in the rule; structural equality is on owned mirrors of the crate's value types (harness/src/drivers.rs, btor.rs).",
            "DESIGN.md section 4, C03"),
    "C04": ("fault_enumeration",
            "fault injection with complete enumeration of fault offsets: for each generated (parser, input, chunking, error kind) the source fails after k bytes for every k in 0..=len; oracle = fault-free run of the same parser",
            "For every generated input up to 256 bytes all fault offsets are enumerated (64 spread offsets above that) under a generated chunking and error kind; the items handed out must be a prefix of the fault-free items, a delivered error must surface as exactly that I/O error (never a clean end or a syntax error), and a run that never requested the error must equal the fault-free run. About 490k (input, offset) pairs in the quick tier.",
            "The fault-free run is the item reference; inputs are sampled, offsets per input are complete up to 256 bytes.",
            "DESIGN.md section 4, C04"),
    "C06": ("exploration",
            "property-based differential testing against independent reference readers (line split, whitespace tokens, wide decimals, 7-bit groups) on boundary-number and single-limit-violation documents",
            "Valid documents with numbers replaced by boundary values relative to the literal type and the declared header values, documents with exactly one declared-limit violation, and all other input classes are parsed under a generated feed; an independent reader classifies each text as must-reject, accept-with-these-items or undecided. An accepted text must not be must-reject and the returned numbers must equal the reader's; for BTOR2 every returned line re-rendered must equal the text line. Small AIGER files are also parsed with caller-defined literal types (MAX_CODE 28..31): from_code must never receive a code above MAX_CODE and M is accepted exactly when 2M+1 fits.",
            "Trusts harness/src/refs.rs; undecided texts give no verdict (counted in the evidence).",
            "DESIGN.md section 4, C06"),
    "C07": ("exploration",
            "metamorphic/oracle property-based testing: abstract values rendered through a layout grammar driven by a generated choice stream must parse back to the abstract value, one-shot and re-chunked",
            "Abstract cnf/wcnf/gcnf formulas and solver logs are rendered by an independent renderer that exercises every granted layout choice (whitespace, CRLF, blank and comment lines incl. inside split clauses, clause splits, leading zeros, -0, missing final newline; split value lines, empty value lines, junk lines) in generated combinations; the parsed value must equal the abstract value. The evidence carries per-feature and per-pair hit counts. A scale oracle inserts 10^3..4x10^5 blank/comment lines between two tokens of a clause (2 MiB stack; also in one extra shard built without optimisation).",
            "The layout grammar only contains documented/tested choices; trusts the renderer in harness/src/gen.rs.",
            "DESIGN.md section 4, C07"),
    "C08": ("exploration",
            "property-based testing of error locations: bounds predicate over all rejected generated inputs, and exact-place predicate for single-token corruptions from a catalogue using the renderer's token map",
            "Part A checks line/column bounds of every syntax error produced by the input generators under generated feeds (binary AIGER gate sections excluded from line splitting by an independent decoder). Part B corrupts exactly one token of a well-formed document (14 catalogue entries) and requires the reported line to be the token's line and the column to lie on the token, one-shot, re-chunked and behind a preamble consumed before LineReader::new. Part C drives LineReader directly with a hand-written word scanner (give_up, set_mark + give_up_at, set_mark_to_position + give_up_at; words longer than two chunks) and compares with the word's true line and column.",
            "Trusts the token map of the reference renderer; only unambiguous corruptions are in the catalogue.",
            "DESIGN.md section 4, C08"),
    "C09": ("exploration",
            "property-based testing with a line-bounded scripted source and a delivered-byte counter sampled when each item is returned; stateful reader histories with a read-call accounting oracle",
            "Part 1 delivers layout-rendered documents to the six streaming parsers through a source that never returns more than the rest of the current line (binary: current gate) and requires each item to be handed out before any byte beyond its completing line has been pulled. Part 2 runs generated reader histories and checks that reads are only issued when needed, exactly one per refill, retried on Interrupted, sized 1..chunk, and never after the terminal result.",
            "Decided for line-bounded delivery as the property states; trusts the token map and the source log.",
            "DESIGN.md section 4, C09"),
    "C10": ("exploration",
            "parameter sweep drawn by proptest over (parser, chunk size, read size, max item size) with on-the-fly generated streams of >= 64 x bound bytes and a counting global allocator measuring peak live heap",
            "Each configuration streams tens of MiB (thorough: up to 1 GiB for 1 MiB chunks) that are never materialised through a streaming parser; the peak live heap must stay below 16 x chunk + 16 x max item + 64 KiB and the stream must parse to a clean end with the generated number of items. Also: AIGER section readers in skip mode, streams with a damaged tail (BTOR2 justice count, megabytes of binary continuation bytes) that must be rejected within the bound, and the DeferredReader driven directly in three scanner styles, solver-log streams (with and without ignore_unknown_lines), a 40 MiB chunk over 100 MiB, construction by from_buf_reader, chunk sizes configured twice, and a short input asked for far more than it holds.",
            "Bound constants are judgement calls (DESIGN.md); quick tier caps the stream at 48 MiB per configuration.",
            "DESIGN.md section 4, C10"),
    "C12": ("exploration",
            "property-based testing with an independent 64-bit parallel simulator (exhaustive truth tables up to 6 variables, 256 random patterns above), structural predicate, binary write/parse acceptance, injected single defects, deep graphs under a CPU watchdog",
            "Generated well-formed AIGs (arbitrary numbering and gate order, constants, negations, duplicate and dangling gates, every root section) are renumbered under all 8 option combinations and all five literal types, optionally with the variables renamed to the last variables of the type, sparsely above 2^32 (groups agreeing modulo 2^32) or by a 2^40 stride; structure, functional equivalence of every root and of the literal map, preserved resets and binary codec acceptance are checked. AIGs with exactly one injected cycle, undefined literal or double definition must yield the matching error when the defect matters. Chains/trees up to 10^6 gates check termination (worker CPU watchdog, crash = violation).",
            "Random simulation above 6 variables; trusts the simulator in harness/src/props/c12.rs.",
            "DESIGN.md section 4, C12"),
    "C05": ("exploration",
            "robustness fuzzing with a structured generator (grammar, mutation, hostile headers, arbitrary bytes) in isolated worker processes with a counting global allocator, CPU watchdog and crash attribution; two build profiles",
            "300k (quick) / 5M (thorough) inputs per run over all nine parser entry points, five literal types and both configs, in a build with overflow checks and debug assertions and in a release build. Oracle: the result is a value (no panic, signal, abort, CPU-limit hit) and the peak heap during the parse is at most 128 x delivered bytes + 256 KiB, measured by a counting allocator; a worker that dies is attributed to the case it was running and reported with a replay file. Input classes include documents behind byte order marks, one token repeated up to 10^6 times inside a valid document, and feeds that end in an injected I/O error. The repeated-token class also runs on a 2 MiB stack and in one extra shard built without optimisation.",
            "Heap-bound constants are judgement calls documented in DESIGN.md; hang = 60 CPU-seconds twice.",
            "DESIGN.md section 4, C05"),
    "C02": ("exploration",
            "stateful property-based testing: proptest-generated operation histories x read schedules x constructors, every observer compared with a Vec+cursor reference model after every step",
            "Generated reader histories (200k quick / 5M thorough, plus long inputs with 1000/4096/16384-byte chunks) are interpreted against the real DeferredReader and a reference model; buf/buf_len/buf_ptr/position/mark/is_complete/is_at_end/io_error and the results of request*, advance_with_buf and check_io_error are compared after every operation. Also: interruption storms, offsets next to usize::MAX, calls documented to panic (caught; state unchanged), 0.3..1 MB inputs with look-ahead up to 700 KB, ~70 MiB inputs with single requests of 33..71 MiB. Failures are shrunk by proptest and stored as JSON replays.",
            "Trusts the scheduled source (harness/src/source.rs) and the model in harness/src/reader_model.rs; sampling only, position wrap-around unreachable.",
            "DESIGN.md section 4, C02"),
    "C11": ("exploration",
            "stateful property-based testing: proptest-generated writer histories x scripted sinks (short writes, Interrupted, Ok(0), failures at generated call indices) against a reference stream and the sink's call log",
            "Generated DeferredWriter histories (60k quick / 1.5M thorough) run against scripted sinks; without failures the sink content must equal the reference stream after every flush and after drop (integers as canonical decimal text); with failures: writes succeed, the error is reported exactly once by the next flush/check_io_error, the sink is not called in between, the bytes before the first failure are an exact prefix and the total is an in-order selection of the written stream.",
            "Trusts the scripted sink and the model in harness/src/writer_model.rs; duplicate detection relies on position-dependent pseudo-random content.",
            "DESIGN.md section 4, C11"),
    "C13": ("exploration",
            "property-based testing against an arbitrary-precision string-arithmetic reference (12 integer types x 4 scanners x offsets x pre-buffered amounts) plus enumerated sweep of the 8-byte SWAR kernel",
            "All four scanners are compared with a reference that works on decimal strings (exact for 128-bit types) for generated inputs rich in boundary values; the fast variants must agree with the simple ones for every amount of buffered data. The SWAR kernel is swept over every digit string of length 0..6 (quick; strided 7-8 digits) or 0..8 (thorough, complete) with several terminators and, per lane, all 256 byte values. Runs in a build with overflow checks and in a plain release build.",
            "Trusts the reference in harness/src/props/c13.rs and Rust's integer to_string/MIN/MAX.",
            "DESIGN.md section 4, C13"),
    "C14": ("exploration",
            "stateful property-based testing with out-of-contract calls caught by catch_unwind, lying sources and panicking sinks; model comparison after every caught panic; run with debug assertions, in release mode and under AddressSanitizer",
            "Reader and writer histories extended with calls documented to panic (advance past the buffer), sources that over-report and sinks that panic are executed in three builds (debug assertions + overflow checks, release, release + AddressSanitizer). After every step and every caught panic the exposed window must have the model's length and content; documented panics must happen; buf_write_ptr must never claim space it does not have. Worker crashes (signals, sanitizer aborts) are attributed to the running case and reported as violations. The parsers' raw 8-byte loads are covered by running the C01 one-shot/re-chunked comparison in the same three builds; histories also set absurd chunk sizes (usize::MAX - k).",
            "ASan shards need the nightly toolchain; stale reads inside the reader's own allocation are only visible through wrong content.",
            "DESIGN.md section 4, C14"),
    "C16": ("exploration",
            "complete small-scope enumeration (all strings over {SP,TAB,CR,LF,x} up to length 6 x offsets x feeds x patterns) plus proptest sampling, against reference scanners and a delivered-byte counter",
            "tabs_or_spaces, newline, next_newline and fixed are compared with reference implementations on every string over a 5-letter alphabet up to length 6, every start offset, three feeds (fully buffered, bytewise with chunk 1, 3-byte chunks) and every prefix/wrong-byte/too-long pattern; returned offset, unchanged cursor and window, and the number of bytes pulled from the source (<= bytes needed to decide + chunk - 1) are checked. Sampled beyond the small scope with arbitrary bytes and generated feeds, and with strings made of runs of up to 40 KB (long lines and blank runs across chunk boundaries), on a 2 MiB stack and additionally in one extra shard built without optimisation.",
            "Trusts the reference scanners in harness/src/props/c16.rs.",
            "DESIGN.md section 4, C16"),
    "C15": ("exploration",
            "complete enumeration of the finite combinator domain + proptest-drawn payloads against a reference semantics table with closure invocation counters",
            "Every (combinator, input case, continuation result) combination of the 15 combinators is executed and compared with a reference table written from the documentation (result value, closure invocation count, closure argument, mutation); payload values are additionally sampled by proptest. Each combination runs in 16 evaluation contexts (i64 payloads with capturing closures or zero-sized payloads with fn items; plainly or inside a destructor while the thread unwinds; plainly or inside 1500 active continuations of the combinator under test; at one or at three stack positions) and once more while 300 threads are parked inside each combinator in turn; 2^32+1000 evaluations of each closure-taking Parsed combinator on one thread; 160-fold nesting around 64 KiB payloads. The domain is finite, so the enumeration is complete (exhaustive: true).",
            "Trusts the reference table in harness/src/props/c15.rs; payload types are i64 and () (the combinators are parametric).",
            "DESIGN.md section 4, C15"),
}

NOT_YET = {}

ALL = ["C%02d" % i for i in range(1, 17)]

def main():
    checks = []
    for pid in ALL:
        if pid not in CLAIMED:
            continue
        cat, technique, text, note, ref = CLAIMED[pid]
        checks.append({
            "property_id": pid,
            "quick_cmd": "./check %s quick" % pid,
            "thorough_cmd": "./check %s thorough" % pid,
            "evidence_file": "/verif/evidence/%s.json" % pid,
            "replay_cmd_template": "./check replay {path}",
            "engine": "fv",
            "level_claimed": {"category": cat, "text": text, "design_ref": ref},
            "level_note": note,
            "technique": technique,
        })
    na = []
    for pid in ALL:
        if pid not in CLAIMED:
            na.append({"property_id": pid,
                       "reason": NOT_YET.get(pid, "check not built yet in this round (planned: property-based testing per DESIGN.md section 4); not claimed until its check exists and is silent on the unchanged tree")})
    manifest = {
        "version": 1,
        "setup_cmd": "./check build",
        "hooks": {
            "guard": "flussab_verif",
            "enable": "no hooks are needed: all observations use the public API, custom Read/Write implementations and a counting global allocator inside the harness process; checks build /repo's crates as path dependencies of /verif/harness",
            "baseline_off_cmd": "cd /repo && cargo test --workspace --no-fail-fast --offline",
            "source_commits": [],
            "add_only": True,
        },
        "engines": [
            {"name": "fv", "path": "/verif/harness",
             "serves_properties": sorted(CLAIMED.keys()),
             "kind_free_text": "Rust binary: proptest 1.11 TestRunner driven from a binary (fixed seeds, 16 shards in worker processes, shrinking, JSON replay files), enumerators for the finite sub-domains, counting global allocator, per-case CPU watchdog, crash attribution with delta-debugging minimisation"},
            {"name": "libfuzzer", "path": "/verif/harness/fuzz",
             "serves_properties": ["C01", "C02", "C05", "C06", "C08", "C09", "C11", "C14"],
             "kind_free_text": "cargo-fuzz / libFuzzer targets parse, reader_ops, writer_ops: bytes are decoded into the proptest oracles' structured cases (harness/src/fuzzdec.rs); thorough tier only"},
        ],
        "checks": checks,
        "not_applicable": na,
        "notes": "All checks: ./check <Cxx> <quick|thorough>; exit 0 held, 1 VIOLATION (line `VIOLATION property=<id> replay=<path>`), 2 inconclusive (build failure, worker death without attributable case for a property that is not about crashes, generator class never produced). Every check runs 16 worker processes whose shards alternate between a build with overflow checks + debug assertions and a plain release build (C10: release only; C14: additionally AddressSanitizer); thorough tiers of C01 C02 C05 C06 C08 C09 C11 C14 append a libFuzzer stage (harness/fuzz). Known findings: /verif/known_findings.json (only `fixed:` records at present). Replays written at run time: /verif/replays; committed regression cases, replayed by every run: /verif/corpus/<Cxx>. Sensitivity material: /verif/mutants, /verif/seeded (tools/run_all_mutants.sh, tools/run_seeded.sh; they use scratch worktrees via VERIF_REPO and never touch /repo).",
    }
    with open(os.path.join(HERE, "MANIFEST.json"), "w") as f:
        json.dump(manifest, f, indent=1)
        f.write("\n")

if __name__ == "__main__":
    main()

#!/usr/bin/env python3
"""Generates /verif/MANIFEST.json from the table below (kept in one place so that the claimed
set, the not_applicable list and the commands cannot drift apart)."""
import json, os, sys

HERE = os.path.dirname(os.path.dirname(os.path.abspath(__file__)))

# id -> (level category, technique, level text, level note, design ref)
CLAIMED = {
    "C15": ("exploration",
            "complete enumeration of the finite combinator domain + proptest-drawn payloads against a reference semantics table with closure invocation counters",
            "Every (combinator, input case, continuation result) combination of the 15 combinators is executed and compared with a reference table written from the documentation (result value, closure invocation count, closure argument, mutation); payload values are additionally sampled by proptest. The domain is finite, so the enumeration is complete (exhaustive: true).",
            "Trusts the reference table in harness/src/props/c15.rs; payload types are i64 only (the combinators are parametric).",
            "DESIGN.md section 4, C15"),
}

NOT_YET = {}

ALL = ["C%02d" % i for i in range(1, 17)]

def main():
    checks = []
    for pid in ALL:
        if pid not in CLAIMED:
            continue
        cat, technique, text, note, ref = CLAIMED[pid]
        checks.append({
            "property_id": pid,
            "quick_cmd": "./check %s quick" % pid,
            "thorough_cmd": "./check %s thorough" % pid,
            "evidence_file": "/verif/evidence/%s.json" % pid,
            "replay_cmd_template": "./check replay {path}",
            "engine": "fv",
            "level_claimed": {"category": cat, "text": text, "design_ref": ref},
            "level_note": note,
            "technique": technique,
        })
    na = []
    for pid in ALL:
        if pid not in CLAIMED:
            na.append({"property_id": pid,
                       "reason": NOT_YET.get(pid, "check not built yet in this round (planned: property-based testing per DESIGN.md section 4); not claimed until its check exists and is silent on the unchanged tree")})
    manifest = {
        "version": 1,
        "setup_cmd": "./check build",
        "hooks": {
            "guard": "flussab_verif",
            "enable": "no hooks are needed: all observations use the public API, custom Read/Write implementations and a counting global allocator inside the harness process; checks build /repo's crates as path dependencies of /verif/harness",
            "baseline_off_cmd": "cd /repo && cargo test --workspace --no-fail-fast --offline",
            "source_commits": [],
            "add_only": True,
        },
        "engines": [
            {"name": "fv", "path": "/verif/harness",
             "serves_properties": sorted(CLAIMED.keys()),
             "kind_free_text": "Rust binary: proptest 1.11 TestRunner driven from a binary (fixed seeds, 16 shards in worker processes, shrinking, JSON replay files), enumerators for the finite sub-domains, counting global allocator, CPU watchdog"},
        ],
        "checks": checks,
        "not_applicable": na,
        "notes": "All checks: ./check <Cxx> <quick|thorough>; exit 0 held, 1 VIOLATION, 2 inconclusive. Known findings: /verif/known_findings.json. Replays written at run time: /verif/replays; committed regression cases: /verif/corpus/<Cxx>.",
    }
    with open(os.path.join(HERE, "MANIFEST.json"), "w") as f:
        json.dump(manifest, f, indent=1)
        f.write("\n")

if __name__ == "__main__":
    main()

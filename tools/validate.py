#!/usr/bin/env python3
"""Validates MANIFEST.json and all evidence files against the schemas (uses the tooling venv)."""
import json, glob, sys, os
import jsonschema
HERE = os.path.dirname(os.path.dirname(os.path.abspath(__file__)))
ok = True
m = json.load(open(os.path.join(HERE, "MANIFEST.json")))
jsonschema.validate(m, json.load(open("/root/.vp/MANIFEST.schema.json")))
es = json.load(open("/root/.vp/EVIDENCE.schema.json"))
for c in m["checks"]:
    p = c["evidence_file"]
    if not os.path.exists(p):
        print("missing evidence", p); ok = False; continue
    e = json.load(open(p))
    try:
        jsonschema.validate(e, es)
    except Exception as ex:
        print("invalid", p, str(ex)[:300]); ok = False
    if e["level"] != c["level_claimed"]["category"]:
        print("level mismatch", p); ok = False
ids = {c["property_id"] for c in m["checks"]} | {n["property_id"] for n in m.get("not_applicable", [])}
want = {json.loads(l)["id"] for l in open(os.path.join(HERE, "properties.jsonl"))}
if ids != want:
    print("property coverage mismatch", ids ^ want); ok = False
print("ok" if ok else "FAILED")
sys.exit(0 if ok else 1)

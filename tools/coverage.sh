#!/bin/bash
# Source-line coverage of /repo reached by the quick tiers of all checks (diagnostic, not a check):
# builds an instrumented copy of the harness (nightly, -C instrument-coverage), runs every
# property's quick tier through it with evidence/replays redirected to .build/cov-out, merges the
# per-worker profiles and prints, per flussab source file, line coverage and the uncovered lines.
# Used to find API surface and branches that the generators never reach (DESIGN.md section 13).
#   tools/coverage.sh [Cxx ...]        (default: all 16)
set -u
cd "$(dirname "$0")/.."
VERIF_DIR="$(pwd)"
export CARGO_NET_OFFLINE=true
BUILD="$VERIF_DIR/.build"
OUT="$BUILD/cov-out"
BIN_DIR="$(dirname "$(rustc +nightly --print target-libdir)")/bin"
rm -rf "$OUT"; mkdir -p "$OUT/prof" "$OUT/evidence" "$OUT/replays" "$OUT/run"
# --target keeps the flag off proc-macros/build scripts (they would drop .profraw files into /repo)
RUSTFLAGS="-C instrument-coverage" cargo +nightly build --manifest-path harness/Cargo.toml --profile fast \
  --target x86_64-unknown-linux-gnu --target-dir "$BUILD/cov" >"$BUILD/build-cov.log" 2>&1 || { tail -20 "$BUILD/build-cov.log"; exit 2; }
FV="$BUILD/cov/x86_64-unknown-linux-gnu/fast/fv"
props="${*:-C01 C02 C03 C04 C05 C06 C07 C08 C09 C10 C11 C12 C13 C14 C15 C16}"
export FV_EVIDENCE_DIR="$OUT/evidence" FV_REPLAY_DIR="$OUT/replays" FV_RUN_DIR="$OUT/run"
export FV_BINS="fast=$FV"
for p in $props; do
  LLVM_PROFILE_FILE="$OUT/prof/$p-%p-%m.profraw" "$FV" run "$p" "${TIER:-quick}" | tail -1
done
"$BIN_DIR/llvm-profdata" merge -sparse "$OUT"/prof/*.profraw -o "$OUT/all.profdata" || exit 2
"$BIN_DIR/llvm-cov" report "$FV" -instr-profile="$OUT/all.profdata" $(find /repo -path /repo/target -prune -o -name '*.rs' -path '*/src/*' -print) \
  2>/dev/null | awk '{print}' > "$OUT/report.txt"
"$BIN_DIR/llvm-cov" show "$FV" -instr-profile="$OUT/all.profdata" -show-line-counts-or-regions \
  $(find /repo -path /repo/target -prune -o -name '*.rs' -path '*/src/*' -print) > "$OUT/show.txt" 2>/dev/null
"$BIN_DIR/llvm-cov" export "$FV" -instr-profile="$OUT/all.profdata" -format=lcov \
  $(find /repo -path /repo/target -prune -o -name '*.rs' -path '*/src/*' -print) > "$OUT/lcov.info" 2>/dev/null
"$BIN_DIR/llvm-cov" export "$FV" -instr-profile="$OUT/all.profdata" -format=text \
  $(find /repo -path /repo/target -prune -o -name '*.rs' -path '*/src/*' -print) > "$OUT/export.json" 2>/dev/null
python3 - "$OUT/export.json" <<'PY'
# code regions never entered in any instantiation (segments: line, col, count, has_count, is_entry, is_gap)
import json, sys
d = json.load(open(sys.argv[1]))
for f in d["data"][0]["files"]:
    src = open(f["filename"]).read().split("\n")
    miss = [(s[0], s[1]) for s in f["segments"] if s[3] and s[2] == 0 and s[4] and not s[5]]
    for (l, c) in miss:
        print(f"UNENTERED {f['filename']}:{l}:{c}: {src[l-1].strip()[:110]}")
PY
python3 - "$OUT/lcov.info" <<'PY'
import sys, collections
cur = None
un = collections.defaultdict(list); tot = collections.Counter(); hit = collections.Counter()
for l in open(sys.argv[1]):
    l = l.strip()
    if l.startswith("SF:"): cur = l[3:]
    elif l.startswith("DA:"):
        n, c = l[3:].split(",")[:2]
        tot[cur] += 1
        if int(c) > 0: hit[cur] += 1
        else: un[cur].append(int(n))
def ranges(xs):
    out = []; s = p = None
    for x in xs:
        if s is None: s = p = x
        elif x == p + 1: p = x
        else: out.append((s, p)); s = p = x
    if s is not None: out.append((s, p))
    return ",".join(f"{a}" if a == b else f"{a}-{b}" for a, b in out)
T = H = 0
for f in sorted(tot):
    T += tot[f]; H += hit[f]
    print(f"{f}: {hit[f]}/{tot[f]} lines ({100*hit[f]/max(tot[f],1):.1f}%)  uncovered: {ranges(un[f])}")
print(f"TOTAL {H}/{T} ({100*H/max(T,1):.1f}%)")
PY

#!/bin/bash
# For every seeded change under seeded/: independent confirmation (verify_seeded.sh), then the
# check of the property it was written against, run against a scratch worktree carrying the patch.
cd "$(dirname "$0")/.."
for d in ${@:-seeded/C*}; do
  [ -f "$d/patch.diff" ] || continue
  id=$(basename "$d"); prop=${id%%-*}
  if [ "${SKIP_VERIFY:-0}" != 1 ] || ! grep -q "^  CONFIRMED" "$d/verification.txt" 2>/dev/null; then
    tools/verify_seeded.sh "$d" 2>&1 | tee "$d/verification.txt" | grep -E "^seeded=|CONFIRMED"
  fi
  SKIP_TESTS=1 tools/run_mutant.sh "$d/patch.diff" $prop ${EXTRA_CHECKS:-} 2>&1 | grep "^MUTANT" | tee "$d/${RESULT_NAME:-check-result-final.txt}"
done

#!/bin/bash
# Sensitivity run: applies a patch to a scratch worktree of /repo (never to /repo itself), checks
# that the repository's own tests still pass, runs the given checks against the scratch copy and
# reports which of them go red. The worktree and its build output are removed afterwards.
#   tools/run_mutant.sh <patch.diff> <Cxx> [<Cxx> ...]      (env TIER=quick|thorough, KEEP=1)
set -u
cd "$(dirname "$0")/.."
PATCH="$(readlink -f "$1")"; shift
NAME="$(basename "$(dirname "$PATCH")")-$(basename "$PATCH" .diff)"
TIER="${TIER:-quick}"
# SLOT=<k>: reuse one scratch worktree (/tmp/fv-slot-<k>) and its build directory for a whole
# campaign (tools/campaign.sh removes them at the end); otherwise a fresh worktree per call.
if [ -n "${SLOT:-}" ]; then
  WT="/tmp/fv-slot-$SLOT"
  if [ -d "$WT/.git" ] || [ -f "$WT/.git" ]; then
    git -C "$WT" checkout -q -- . && git -C "$WT" clean -fdq
  else
    git -C /repo worktree add --detach "$WT" HEAD >/dev/null 2>&1 || { echo "MUTANT $NAME: cannot create worktree"; exit 2; }
  fi
  cleanup() { git -C "$WT" checkout -q -- . ; git -C "$WT" clean -fdq; TAG="alt-$(echo -n "$WT" | md5sum | cut -c1-10)"; rm -rf ".build/$TAG-out"; }
else
  WT="/tmp/fv-mut-$$-$NAME"
  git -C /repo worktree add --detach "$WT" HEAD >/dev/null 2>&1 || { echo "MUTANT $NAME: cannot create worktree"; exit 2; }
  cleanup() {
    TAG="alt-$(echo -n "$WT" | md5sum | cut -c1-10)"
    [ "${KEEP:-0}" = 1 ] || rm -rf ".build/$TAG" ".build/$TAG-asan" ".build/$TAG-manifest" ".build/$TAG-out" .build/build-$TAG-*.log
    git -C /repo worktree remove --force "$WT" >/dev/null 2>&1
  }
fi
trap cleanup EXIT
if ! git -C "$WT" apply "$PATCH" 2>/tmp/fv-apply-$$.log; then
  echo "MUTANT $NAME: patch does not apply: $(head -2 /tmp/fv-apply-$$.log)"; rm -f /tmp/fv-apply-$$.log; exit 2
fi
rm -f /tmp/fv-apply-$$.log
if [ "${SKIP_TESTS:-0}" != 1 ]; then
  if ! (cd "$WT" && CARGO_NET_OFFLINE=true cargo test --workspace --no-fail-fast --offline >/tmp/fv-test-$$.log 2>&1); then
    echo "MUTANT $NAME: repository tests FAIL with this patch (not a valid mutant)"; grep -E "^test .* FAILED|error(\[|:)" /tmp/fv-test-$$.log | head -5
    rm -f /tmp/fv-test-$$.log; exit 3
  fi
  rm -f /tmp/fv-test-$$.log
fi
caught=""
missed=""
for P in "$@"; do
  out=$(VERIF_REPO="$WT" ./check "$P" "$TIER" 2>&1); rc=$?
  first=$(echo "$out" | grep -m1 -A2 "^VIOLATION" | tr '\n' ' ' | cut -c1-420)
  if [ $rc -eq 1 ]; then caught="$caught $P"; echo "MUTANT $NAME: $P RED  $first";
  elif [ $rc -eq 0 ]; then missed="$missed $P"; echo "MUTANT $NAME: $P green";
  else echo "MUTANT $NAME: $P inconclusive rc=$rc $(echo "$out" | grep -m1 INCONCLUSIVE | cut -c1-300)"; missed="$missed $P(?)"; fi
done
echo "MUTANT $NAME: caught by:${caught:- none}; missed by:${missed:- none}"

#!/bin/bash
# Runs every mutant in mutants/index.json against the checks it is expected to turn red.
cd "$(dirname "$0")/.."
python3 - <<'PY' > /tmp/fv-mutant-list.$$
import json
for m in json.load(open('mutants/index.json')):
    print(m['name'], ' '.join(m['expected']))
PY
while read -r name props; do
  tools/run_mutant.sh "mutants/$name.diff" $props 2>&1 | grep "^MUTANT"
done < /tmp/fv-mutant-list.$$
rm -f /tmp/fv-mutant-list.$$

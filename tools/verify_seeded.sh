#!/bin/bash
# Confirms a seeded change independently in a scratch worktree: the patch applies, the repository's
# tests still pass with it, the demonstration fails with it and passes without it.
#   tools/verify_seeded.sh <seeded-dir>      (dir contains patch.diff, demo/*.rs, README.md)
set -u
D="$(readlink -f "$1")"
WT="/tmp/fv-seedchk-$$"
git -C /repo worktree add --detach "$WT" HEAD >/dev/null 2>&1 || { echo "cannot create worktree"; exit 2; }
trap 'git -C /repo worktree remove --force "$WT" >/dev/null 2>&1' EXIT
export CARGO_NET_OFFLINE=true
demo=$(ls "$D"/demo/*.rs | head -1)
name=$(basename "$demo" .rs)
dest=$(grep -oE "flussab[a-z0-9-]*/(tests|examples)/$name\.rs" "$D/README.md" | head -1)
if [ -z "$dest" ]; then
  # README names only the directory ("cp ... flussab-cnf/tests/")
  dir=$(grep -oE "flussab[a-z0-9-]*/(tests|examples)" "$D/README.md" | head -1)
  [ -n "$dir" ] && dest="$dir/$name.rs"
fi
[ -n "$dest" ] || { echo "cannot find demo destination in README"; exit 2; }
crate=${dest%%/*}; kind=$(echo "$dest" | cut -d/ -f2)
# some changes only manifest without overflow checks / debug assertions
REL=""; grep -E "cargo (test|run).*$name" "$D/README.md" | grep -q -- "--release" && REL="--release"
run_demo() {
  mkdir -p "$WT/$crate/$kind"; cp "$demo" "$WT/$dest"
  if [ "$kind" = tests ]; then (cd "$WT" && cargo test --offline $REL -p "$crate" --test "$name" >/tmp/fv-demo-$$.log 2>&1); else (cd "$WT" && cargo run --offline $REL -p "$crate" --example "$name" >/tmp/fv-demo-$$.log 2>&1); fi
  rc=$?; rm -f "$WT/$dest"; rmdir "$WT/$crate/$kind" 2>/dev/null; return $rc
}
run_demo; clean_rc=$?
git -C "$WT" apply "$D/patch.diff" || { echo "patch does not apply"; exit 3; }
(cd "$WT" && cargo test --workspace --no-fail-fast --offline >/tmp/fv-suite-$$.log 2>&1); suite_rc=$?
passed=$(grep -E "^test result: ok" /tmp/fv-suite-$$.log | sed -E 's/.*ok\. ([0-9]+) passed.*/\1/' | paste -sd+ | bc)
run_demo; patched_rc=$?
fail_line=$(grep -m1 -E "panicked|FAILED|assert" /tmp/fv-demo-$$.log | cut -c1-200)
rm -f /tmp/fv-demo-$$.log /tmp/fv-suite-$$.log
echo "seeded=$(basename "$(dirname "$D")")/$(basename "$D") demo=$dest profile=${REL:-debug} clean_tree_demo_rc=$clean_rc suite_with_patch_rc=$suite_rc suite_tests_passed=$passed patched_demo_rc=$patched_rc"
echo "  first failure line with patch: $fail_line"
[ $clean_rc -eq 0 ] && [ $suite_rc -eq 0 ] && [ $patched_rc -ne 0 ] && { echo "  CONFIRMED"; exit 0; }
echo "  NOT CONFIRMED"; exit 1

#!/bin/bash
# Long coverage-guided campaign with all oracles active (exploration beyond the fixed-work tiers).
#   tools/fuzz_campaign.sh <seconds> [jobs-per-target]
cd "$(dirname "$0")/.."
export VERIF_DIR="$(pwd)" CARGO_NET_OFFLINE=true
SECS="${1:-1800}"; JOBS="${2:-4}"
./check build >/dev/null 2>&1
OUT=".build/fuzz-campaign"; rm -rf "$OUT"; mkdir -p "$OUT"
export FV_REPLAY_DIR="$VERIF_DIR/replays" FV_FUZZ_ORACLES="C01,C05,C06,C08,C02,C09,C14,C11"
for target in parse reader_ops writer_ops; do
  .build/main/checked/fv emit-corpus "$target" "$OUT/$target-seeds" 600 >/dev/null
  for j in $(seq 1 "$JOBS"); do
    mkdir -p "$OUT/$target-$j/corpus" "$OUT/$target-$j/artifacts"; cp "$OUT/$target-seeds"/* "$OUT/$target-$j/corpus/"
    ( cd harness && "fuzz/target/x86_64-unknown-linux-gnu/release/$target" "../$OUT/$target-$j/corpus" \
        -artifact_prefix="../$OUT/$target-$j/artifacts/" -max_total_time="$SECS" -seed=$((1000 + j)) -max_len=900 -len_control=0 \
        -timeout=25 -rss_limit_mb=6000 -malloc_limit_mb=3000 >"../$OUT/$target-$j/log" 2>&1 ) &
  done
done
wait
for d in "$OUT"/*-[0-9]*; do
  echo "$(basename "$d"): $(grep -oE "Done [0-9]+ runs|^#[0-9]+" "$d/log" | tail -1) cov=$(grep -oE "cov: [0-9]+" "$d/log" | tail -1) artifacts=$(ls "$d/artifacts" | wc -l)"
  grep -h -A2 "^VIOLATION property=" "$d/log" | head -3
done

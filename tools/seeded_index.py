#!/usr/bin/env python3
"""Merges the independent confirmation and the check results into each seeded/<id>/meta.json and
writes seeded/INDEX.md (one row per seeded change)."""
import json, glob, os, re
HERE = os.path.dirname(os.path.dirname(os.path.abspath(__file__)))
rows = []
for d in sorted(glob.glob(os.path.join(HERE, "seeded", "C*-*"))):
    sid = os.path.basename(d)
    mpath = os.path.join(d, "meta.json")
    try:
        meta = json.load(open(mpath))
    except Exception:
        meta = {}
    meta["property"] = sid.split("-")[0]
    def read(name):
        p = os.path.join(d, name)
        return open(p).read().strip() if os.path.exists(p) else ""
    ver = read("verification.txt")
    meta["confirmed_independently"] = "  CONFIRMED" in ver and "NOT CONFIRMED" not in ver
    meta["confirmation"] = {
        "how": "tools/verify_seeded.sh in a fresh scratch worktree of /repo: demo passes on the clean tree, "
               "patch applies, `cargo test --workspace --offline` passes with the patch, demo fails with the patch",
        "output": ver,
    }
    runs = {}
    for key, name in [("first_run", "check-result-first-run.txt"), ("after_strengthening", "check-result-after-strengthening.txt"), ("final", "check-result-final.txt")]:
        t = read(name)
        if t:
            m = re.search(r"caught by:(.*?); missed by:(.*)", t)
            runs[key] = {"caught_by": m.group(1).split() if m else [], "missed_by": m.group(2).split() if m else [],
                         "command": "SKIP_TESTS=1 tools/run_mutant.sh seeded/%s/patch.diff <Cxx> (VERIF_REPO=<scratch worktree> ./check <Cxx> quick)" % sid,
                         "first_violation": (re.search(r"RED\s+(VIOLATION.*)", t).group(1)[:300] if "RED" in t else "")}
    meta["checks_run"] = runs
    json.dump(meta, open(mpath, "w"), indent=1)
    def fmt(r):
        if not r: return "-"
        c = [x for x in r["caught_by"] if x != "none"]
        return "caught (" + " ".join(c) + ")" if c else "MISSED"
    rows.append((sid, str(meta.get("summary", ""))[:110].replace("|", "/").replace("\n", " "), str(meta.get("needs", ""))[:110].replace("|", "/").replace("\n", " "),
                 "yes" if meta["confirmed_independently"] else "NO", fmt(runs.get("first_run")), fmt(runs.get("final") or runs.get("after_strengthening"))))
with open(os.path.join(HERE, "seeded", "INDEX.md"), "w") as f:
    f.write("# Seeded changes (written by independent sub-agents from the property text only)\n\n")
    f.write("| id | change | needs | confirmed | first run | final checks |\n|---|---|---|---|---|---|\n")
    for r in rows:
        f.write("| %s | %s | %s | %s | %s | %s |\n" % r)
print(len(rows), "seeded changes indexed;", sum(1 for r in rows if r[4] == "MISSED"), "missed in the first run;", sum(1 for r in rows if r[5] == "MISSED"), "missed by the final checks")

//! Abstract documents for every format, proptest strategies for them, and an independent renderer
//! that turns a document plus a stream of layout choices into bytes with a token map. The renderer
//! is written from the format descriptions / the parsers' documentation and tests, not from the
//! crate's writers.
use proptest::prelude::*;
use serde::{Deserialize, Serialize};

use crate::btor::{BLine, BVar, HexBytes};
use crate::drivers::{AigOwned, Item, ParserId, Spec};

// ---------------------------------------------------------------------------------------------
// Token map

#[derive(Clone, Copy, Debug, PartialEq, Eq, Hash, Serialize, Deserialize)]
pub enum Role {
    Keyword,
    /// A decimal number that is part of the data.
    Num,
    /// Clause terminator.
    Term0,
    Comment,
    Name,
    /// Binary AIGER delta code.
    Delta,
    Other,
}

#[derive(Clone, Debug, PartialEq, Eq)]
pub struct Tok {
    pub start: usize,
    pub end: usize,
    /// 1-based line and byte column of `start`.
    pub line: usize,
    pub col: usize,
    pub role: Role,
    /// Index of the item (in `expected`) this token belongs to; usize::MAX for none.
    pub item: usize,
}

#[derive(Clone, Debug, Default)]
pub struct Rendered {
    pub bytes: Vec<u8>,
    pub toks: Vec<Tok>,
    /// For item i: offset just past the line (or binary unit) that completes it.
    pub item_end: Vec<usize>,
    /// Offsets a line-bounded source must not read across (line ends; binary gate ends).
    pub cuts: Vec<usize>,
    /// Layout features used (C07 histogram).
    pub features: Vec<&'static str>,
}

struct Out {
    r: Rendered,
    line: usize,
    line_start: usize,
}

impl Out {
    fn new() -> Out {
        Out {
            r: Rendered::default(),
            line: 1,
            line_start: 0,
        }
    }
    fn raw(&mut self, b: &[u8]) {
        for &c in b {
            self.r.bytes.push(c);
            if c == b'\n' {
                self.line += 1;
                self.line_start = self.r.bytes.len();
                self.r.cuts.push(self.r.bytes.len());
            }
        }
    }
    fn tok(&mut self, b: &[u8], role: Role, item: usize) {
        let start = self.r.bytes.len();
        let (line, col) = (self.line, start - self.line_start + 1);
        self.raw(b);
        self.r.toks.push(Tok {
            start,
            end: self.r.bytes.len(),
            line,
            col,
            role,
            item,
        });
    }
    fn feature(&mut self, f: &'static str) {
        if !self.r.features.contains(&f) {
            self.r.features.push(f);
        }
    }
    fn end_item(&mut self) {
        self.r.item_end.push(self.r.bytes.len());
    }
    fn cut_here(&mut self) {
        let n = self.r.bytes.len();
        if self.r.cuts.last() != Some(&n) {
            self.r.cuts.push(n);
        }
    }
    /// A missing final newline is accepted by the DIMACS and solver-log parsers after any kind of
    /// last line.
    fn strip_final_newline(&mut self) {
        if self.r.bytes.last() == Some(&b'\n') {
            self.r.bytes.pop();
            if self.r.bytes.last() == Some(&b'\r') {
                self.r.bytes.pop();
            }
            self.feature("no-final-newline");
            let n = self.r.bytes.len();
            for t in &mut self.r.toks {
                t.end = t.end.min(n);
                t.start = t.start.min(n);
            }
        }
    }

    fn finish(mut self) -> Rendered {
        // an unterminated last line completes its item at the end of input
        let n = self.r.bytes.len();
        for e in &mut self.r.item_end {
            if *e > n {
                *e = n;
            }
        }
        self.r.cuts.retain(|&c| c <= n);
        self.r
    }
}

/// Stream of layout choices (drawn by proptest, consumed cyclically; all zeros = plain layout).
pub struct Choices<'a> {
    data: &'a [u8],
    i: usize,
}

impl<'a> Choices<'a> {
    pub fn new(data: &'a [u8]) -> Self {
        Choices { data, i: 0 }
    }
    pub fn next(&mut self) -> u8 {
        if self.data.is_empty() {
            return 0;
        }
        let v = self.data[self.i % self.data.len()];
        self.i += 1;
        v
    }
    /// True with probability about num/16.
    pub fn chance(&mut self, num: u8) -> bool {
        (self.next() & 15) < num
    }
    pub fn pick(&mut self, n: usize) -> usize {
        (self.next() as usize * n) >> 8
    }
}

// ---------------------------------------------------------------------------------------------
// DIMACS family

#[derive(Clone, Debug, PartialEq, Eq, Hash, Serialize, Deserialize)]
pub struct DimacsDoc {
    pub kind: ParserId,
    /// (var count, clause count, top weight / group count)
    pub header: Option<(u64, u64, u64)>,
    /// (weight / group, literals)
    pub clauses: Vec<(u64, Vec<i64>)>,
}

impl DimacsDoc {
    pub fn expected(&self) -> Vec<Item> {
        let mut v = vec![];
        if let Some((a, b, c)) = self.header {
            v.push(Item::Header(match self.kind {
                ParserId::Cnf => vec![a, b],
                _ => vec![a, b, c],
            }));
        }
        for (x, lits) in &self.clauses {
            v.push(Item::Clause {
                extra: if self.kind == ParserId::Cnf { None } else { Some(*x) },
                lits: lits.clone(),
            });
        }
        v
    }

    /// Renders with the crate's writers (C03).
    pub fn write_with_crate(&self, lit: u8) -> Vec<u8> {
        use flussab::DeferredWriter;
        let mut out = Vec::new();
        {
            let mut w = DeferredWriter::from_write(&mut out);
            crate::inputs::write_pad(&mut w);
            self.write_into(&mut w, lit);
            let _ = std::io::Write::flush(&mut w);
        }
        crate::inputs::strip_pad(out)
    }

    /// Writes the document with the crate's header / clause functions into a writer of the caller.
    pub fn write_into(&self, w: &mut flussab::DeferredWriter, lit: u8) {
        use flussab_cnf::{cnf, gcnf, wcnf, Dimacs};
        {
            fn conv<L: Dimacs>(l: &[i64]) -> Vec<L> {
                l.iter().map(|&x| L::from_dimacs(x as isize)).collect()
            }
            macro_rules! body {
                ($t:ty) => {{
                    if let Some((a, b, c)) = self.header {
                        match self.kind {
                            ParserId::Cnf => cnf::write_header(
                                &mut *w,
                                cnf::Header {
                                    var_count: a as usize,
                                    clause_count: b as usize,
                                },
                            ),
                            ParserId::Wcnf => wcnf::write_header(
                                &mut *w,
                                wcnf::Header {
                                    var_count: a as usize,
                                    clause_count: b as usize,
                                    top_weight: c,
                                },
                            ),
                            _ => gcnf::write_header(
                                &mut *w,
                                gcnf::Header {
                                    var_count: a as usize,
                                    clause_count: b as usize,
                                    group_count: c as usize,
                                },
                            ),
                        }
                    }
                    for (x, lits) in &self.clauses {
                        let l = conv::<$t>(lits);
                        match self.kind {
                            ParserId::Cnf => cnf::write_clause(&mut *w, &l),
                            ParserId::Wcnf => wcnf::write_clause(&mut *w, *x, &l),
                            _ => gcnf::write_clause(&mut *w, *x as usize, &l),
                        }
                    }
                }};
            }
            match lit % 5 {
                0 => body!(i8),
                1 => body!(i16),
                2 => body!(i32),
                3 => body!(i64),
                _ => body!(isize),
            }
        }
    }
}

fn num_text(v: u128, neg: bool, ch: &mut Choices, out: &mut Out, fancy: bool) -> Vec<u8> {
    let mut s = Vec::new();
    if neg {
        s.push(b'-');
    }
    if fancy && ch.chance(2) {
        // mostly a few; sometimes more zeros than any integer type has digits
        let zeros = match ch.pick(16) {
            0 => 20 + ch.pick(30),
            1 => 50 + ch.pick(250),
            k => 1 + (k % 9),
        };
        s.extend(std::iter::repeat(b'0').take(zeros));
        out.feature("leading-zeros");
    }
    s.extend_from_slice(v.to_string().as_bytes());
    s
}

fn ws(ch: &mut Choices, out: &mut Out, fancy: bool, at_least_one: bool) {
    if !fancy {
        if at_least_one {
            out.raw(b" ");
        }
        return;
    }
    let n = match ch.next() & 15 {
        0..=9 => at_least_one as usize,
        10..=12 => 1 + at_least_one as usize,
        13 => 3,
        14 => 7,
        // right-aligned columns: runs of a word length and more
        _ => 8 + ch.pick(12),
    };
    if n > 1 {
        out.feature("multi-space");
    }
    if n >= 8 {
        out.feature("blank-run>=8");
    }
    for i in 0..n {
        if ch.chance(4) {
            out.raw(b"\t");
            out.feature("tab");
        } else {
            out.raw(b" ");
        }
        let _ = i;
    }
}

fn eol(ch: &mut Choices, out: &mut Out, fancy: bool) {
    if fancy && ch.chance(3) {
        out.raw(b"\r\n");
        out.feature("crlf");
    } else {
        out.raw(b"\n");
    }
}

fn comment_text(ch: &mut Choices) -> Vec<u8> {
    // rarely: one very long comment line (several 16 KiB buffers of look-ahead)
    if ch.next() == 0xA7 && ch.next() % 8 == 3 {
        let n = 40_000 + (ch.next() as usize) * 100;
        return (0..n).map(|k| b" long comment 1 2 0 c p"[k % 23]).collect();
    }
    const TEXTS: [&[u8]; 12] = [
        b"",
        b" a comment",
        b" p cnf 3 4",
        b" 1 2 0",
        b"omment without space",
        b" \xc3\xa4\xff binary \x00",
        b" c c c",
        b" -0 {1} v s",
        // bytes that differ from LF / CR / blank in one bit or only in the high bit
        b" caf\x8a au lait \x8d\x89\xa0 \x0b\x0c\x1a end of it",
        b" \xe3\x82\x8a\xe3\x82\x8a utf-8 with continuation byte 8a \xf0\x9f\x98\x8a",
        // carriage returns that are not part of a line end (progress output redrawn in place)
        b" progress 10%\r progress 20%\r done",
        b" doubled line end\r",
    ];
    TEXTS[ch.pick(TEXTS.len())].to_vec()
}

/// Blank / comment lines that may appear wherever a statement may start.
fn filler_lines(ch: &mut Choices, out: &mut Out, fancy: bool, inside_clause: bool) {
    if !fancy {
        return;
    }
    let mut rounds = 0;
    while rounds < 3 && ch.chance(3) {
        rounds += 1;
        if ch.chance(8) {
            let mut c = vec![b'c'];
            c.extend(comment_text(ch));
            if c.len() > 30_000 {
                out.feature("very-long-comment");
            }
            out.tok(&c, Role::Comment, usize::MAX);
            eol(ch, out, fancy);
            out.feature(if inside_clause { "comment-inside-clause" } else { "comment-line" });
        } else {
            ws(ch, out, fancy, false);
            eol(ch, out, fancy);
            out.feature(if inside_clause { "blank-inside-clause" } else { "blank-line" });
        }
        // leading whitespace of the following line
        if ch.chance(4) {
            ws(ch, out, fancy, true);
            out.feature("leading-ws");
        }
    }
}

/// Renders a DIMACS document. `fancy = false` gives the canonical one-statement-per-line form.
pub fn render_dimacs(doc: &DimacsDoc, choices: &[u8], fancy: bool) -> Rendered {
    let mut ch = Choices::new(choices);
    let mut out = Out::new();
    let mut item = 0usize;
    if fancy && ch.chance(4) {
        ws(&mut ch, &mut out, fancy, true);
        out.feature("leading-ws");
    }
    filler_lines(&mut ch, &mut out, fancy, false);
    let total_items = doc.header.is_some() as usize + doc.clauses.len();
    if let Some((a, b, c)) = doc.header {
        out.tok(b"p", Role::Keyword, item);
        ws(&mut ch, &mut out, fancy, true);
        let fmt: &[u8] = match doc.kind {
            ParserId::Cnf => b"cnf",
            ParserId::Wcnf => b"wcnf",
            _ => b"gcnf",
        };
        out.tok(fmt, Role::Keyword, item);
        ws(&mut ch, &mut out, fancy, true);
        let fields: Vec<u64> = if doc.kind == ParserId::Cnf { vec![a, b] } else { vec![a, b, c] };
        for (i, f) in fields.iter().enumerate() {
            let t = num_text(*f as u128, false, &mut ch, &mut out, fancy);
            out.tok(&t, Role::Num, item);
            if i + 1 < fields.len() {
                ws(&mut ch, &mut out, fancy, true);
            } else {
                ws(&mut ch, &mut out, fancy, false);
            }
        }
        item += 1;
        eol(&mut ch, &mut out, fancy);
        out.end_item();
    }
    let _ = total_items;
    for (x, lits) in doc.clauses.iter() {
        if fancy && ch.chance(3) {
            ws(&mut ch, &mut out, fancy, true);
            out.feature("leading-ws");
        }
        filler_lines(&mut ch, &mut out, fancy, false);
        // weight / group
        match doc.kind {
            ParserId::Wcnf => {
                let t = num_text(*x as u128, false, &mut ch, &mut out, fancy);
                out.tok(&t, Role::Num, item);
                ws(&mut ch, &mut out, fancy, true);
            }
            ParserId::Gcnf => {
                let mut t = vec![b'{'];
                t.extend(num_text(*x as u128, false, &mut ch, &mut out, fancy));
                t.push(b'}');
                out.tok(&t, Role::Num, item);
                ws(&mut ch, &mut out, fancy, true);
            }
            _ => {}
        }
        if doc.kind != ParserId::Cnf && fancy && ch.chance(2) {
            // a clause may continue on the next line right after the weight / group
            eol(&mut ch, &mut out, fancy);
            out.feature("break-after-weight");
            filler_lines(&mut ch, &mut out, fancy, true);
        }
        for l in lits {
            let t = num_text(l.unsigned_abs() as u128, *l < 0, &mut ch, &mut out, fancy);
            out.tok(&t, Role::Num, item);
            ws(&mut ch, &mut out, fancy, true);
            if fancy && ch.chance(3) {
                eol(&mut ch, &mut out, fancy);
                out.feature("split-clause");
                if ch.chance(5) {
                    ws(&mut ch, &mut out, fancy, true);
                    out.feature("leading-ws");
                }
                filler_lines(&mut ch, &mut out, fancy, true);
            }
        }
        // terminator
        let term: &[u8] = if fancy {
            match ch.next() & 15 {
                0..=11 => b"0",
                12..=13 => {
                    out.feature("minus-zero");
                    b"-0"
                }
                _ => {
                    out.feature("leading-zeros");
                    b"00"
                }
            }
        } else {
            b"0"
        };
        out.tok(term, Role::Term0, item);
        ws(&mut ch, &mut out, fancy, false);
        item += 1;
        eol(&mut ch, &mut out, fancy);
        out.end_item();
    }
    if fancy {
        // trailing comments / blank lines
        filler_lines(&mut ch, &mut out, fancy, false);
        if ch.chance(4) {
            out.strip_final_newline();
        }
    }
    out.finish()
}

pub fn dimacs_max(lit: u8) -> i64 {
    match lit % 5 {
        0 => i8::MAX as i64,
        1 => i16::MAX as i64,
        2 => i32::MAX as i64,
        _ => i64::MAX,
    }
}

fn lit_strategy(max: i64) -> impl Strategy<Value = i64> {
    let mag = prop_oneof![
        8 => 1i64..=20.min(max),
        2 => 1i64..=max,
        1 => Just(max),
        1 => Just((max - 1).max(1)),
        1 => prop_oneof![Just(9_999_999i64), Just(10_000_000), Just(99_999_999), Just(100_000_000), Just(999_999_999)]
            .prop_map(move |v| v.min(max)),
    ];
    (mag, any::<bool>()).prop_map(|(m, neg)| if neg { -m } else { m })
}

pub fn dimacs_doc_strategy(kind: ParserId, lit: u8, max_clauses: usize) -> impl Strategy<Value = DimacsDoc> {
    let max = dimacs_max(lit);
    let extra = prop_oneof![
        6 => 0u64..=9,
        2 => any::<u64>(),
        1 => Just(u64::MAX),
    ];
    let clause = (extra, proptest::collection::vec(lit_strategy(max), 0..=6));
    (
        proptest::collection::vec(clause, 0..=max_clauses),
        0u8..8,     // header mode
        any::<u64>(),
        0u64..3,
    )
        .prop_map(move |(mut clauses, hmode, third, slack)| {
            let max_var = clauses
                .iter()
                .flat_map(|(_, l)| l.iter())
                .map(|l| l.unsigned_abs())
                .max()
                .unwrap_or(0);
            if kind == ParserId::Gcnf {
                // groups are usize in the API; keep them in a moderate range unless the header
                // leaves the group count unspecified
                for (g, _) in &mut clauses {
                    if *g > 9 && hmode % 2 == 0 {
                        *g %= 7;
                    }
                }
            }
            let max_group = clauses.iter().map(|(g, _)| *g).max().unwrap_or(0);
            let n = clauses.len() as u64;
            let vars_ok = (max_var + slack).min(max as u64);
            let header = match hmode {
                0 | 1 => None,
                2 | 3 => Some((vars_ok, n, if kind == ParserId::Gcnf { max_group.saturating_add(slack) } else { third })),
                4 => Some((0, 0, if kind == ParserId::Gcnf { 0 } else { third })),
                5 => Some((vars_ok, 0, if kind == ParserId::Gcnf { 0 } else { third })),
                6 => Some((0, n, if kind == ParserId::Gcnf { max_group } else { third })),
                _ => Some((max as u64, n, if kind == ParserId::Gcnf { max_group.max(1) } else { u64::MAX })),
            };
            // a declared clause count of n == 0 means "unspecified"; that is still consistent
            DimacsDoc {
                kind,
                header,
                clauses,
            }
        })
}

// ---------------------------------------------------------------------------------------------
// SAT solver log

#[derive(Clone, Debug, PartialEq, Eq, Hash, Serialize, Deserialize)]
pub struct LogDoc {
    /// None: no solution line. Some(None): "s UNKNOWN".
    pub solution: Option<Option<bool>>,
    /// None: no value lines at all. Some(v): the literals before the terminating 0.
    pub values: Option<Vec<i64>>,
}

impl LogDoc {
    pub fn expected(&self) -> Vec<Item> {
        vec![Item::Log {
            sat: self.solution.flatten(),
            assignment: self.values.clone().unwrap_or_default(),
        }]
    }
}

pub fn log_doc_strategy(lit: u8) -> impl Strategy<Value = LogDoc> {
    let max = dimacs_max(lit);
    (
        prop_oneof![Just(None), Just(Some(None)), Just(Some(Some(true))), Just(Some(Some(false)))],
        proptest::option::weighted(0.7, proptest::collection::vec(lit_strategy(max), 0..=12)),
    )
        .prop_map(|(solution, values)| LogDoc { solution, values })
}

/// `junk`: interleave lines that are only legal with `ignore_unknown_lines`.
pub fn render_log(doc: &LogDoc, choices: &[u8], fancy: bool, junk: bool) -> Rendered {
    let mut ch = Choices::new(choices);
    let mut out = Out::new();
    const JUNK: [&[u8]; 12] = [
        b"",
        b"c",
        b"v",
        b"s",
        b"solver 1.0",
        b"x 1 2 0",
        b"\tindented",
        b"cc",
        b" v 1 2 0",
        // indented look-alikes of solution and value lines (not lines of the log: they do not
        // start with "s " / "v ")
        b"  s UNSATISFIABLE",
        b"\tv -1 -2 0",
        b" s SATISFIABLE",
    ];
    fn fillers(ch: &mut Choices, out: &mut Out, fancy: bool, junk: bool) {
        if !fancy {
            return;
        }
        let mut rounds = 0;
        while rounds < 3 && ch.chance(3) {
            rounds += 1;
            if junk && ch.chance(6) {
                let j = JUNK[ch.pick(JUNK.len())];
                out.tok(j, Role::Other, usize::MAX);
                out.raw(b"\n");
                out.feature("unknown-line");
            } else {
                let mut c = b"c ".to_vec();
                c.extend(comment_text(ch));
                out.tok(&c, Role::Comment, usize::MAX);
                out.raw(b"\n");
                out.feature("comment-line");
            }
        }
    }
    // Where the solution line goes relative to the value lines.
    let sol_pos = if fancy { ch.pick(3) } else { 0 }; // 0 before, 1 between, 2 after
    let mut lines: Vec<Vec<i64>> = vec![];
    let mut with_zero_line = false;
    if let Some(vals) = &doc.values {
        // split the literals over value lines
        let mut cur = vec![];
        for v in vals {
            cur.push(*v);
            if fancy && ch.chance(4) {
                lines.push(std::mem::take(&mut cur));
            }
        }
        lines.push(cur);
        with_zero_line = true;
    }
    let nlines = lines.len();
    let sol_at = match sol_pos {
        0 => 0,
        1 => nlines / 2,
        _ => nlines,
    };
    let emit_solution = |ch: &mut Choices, out: &mut Out, last: bool| {
        if let Some(s) = doc.solution {
            out.tok(b"s", Role::Keyword, 0);
            out.raw(b" ");
            out.tok(
                match s {
                    Some(true) => b"SATISFIABLE".as_slice(),
                    Some(false) => b"UNSATISFIABLE",
                    None => b"UNKNOWN",
                },
                Role::Keyword,
                0,
            );
            let _ = last;
            eol(ch, out, fancy);
        }
    };
    fillers(&mut ch, &mut out, fancy, junk);
    for (i, line) in lines.iter().enumerate() {
        if i == sol_at {
            emit_solution(&mut ch, &mut out, false);
            fillers(&mut ch, &mut out, fancy, junk);
        }
        if fancy && ch.chance(2) {
            out.tok(b"v", Role::Keyword, 0);
            out.raw(b" ");
            ws(&mut ch, &mut out, fancy, false);
            out.raw(b"\n");
            out.feature("empty-value-line");
        }
        out.tok(b"v", Role::Keyword, 0);
        out.raw(b" ");
        ws(&mut ch, &mut out, fancy, false);
        for v in line {
            let t = num_text(v.unsigned_abs() as u128, *v < 0, &mut ch, &mut out, fancy);
            out.tok(&t, Role::Num, 0);
            ws(&mut ch, &mut out, fancy, true);
        }
        let is_last_values = i + 1 == nlines;
        if is_last_values && with_zero_line {
            if fancy && !line.is_empty() && ch.chance(4) {
                // terminating zero on its own line
                out.raw(b"\n");
                out.tok(b"v", Role::Keyword, 0);
                out.raw(b" ");
                out.feature("zero-on-own-line");
            }
            out.tok(if fancy && ch.chance(2) { b"-0" } else { b"0" }, Role::Term0, 0);
            ws(&mut ch, &mut out, fancy, false);
        }
        eol(&mut ch, &mut out, fancy);
        if nlines > 1 {
            out.feature("split-values");
        }
        fillers(&mut ch, &mut out, fancy, junk);
    }
    if sol_at == nlines {
        emit_solution(&mut ch, &mut out, true);
        fillers(&mut ch, &mut out, fancy, junk);
    }
    if fancy && ch.chance(4) {
        out.strip_final_newline();
    }
    out.end_item();
    let mut r = out.finish();
    r.item_end = vec![r.bytes.len()];
    r
}

// ---------------------------------------------------------------------------------------------
// AIGER

#[derive(Clone, Debug, PartialEq, Eq, Hash, Serialize, Deserialize)]
pub struct AigDoc {
    pub binary: bool,
    pub aig: AigOwned,
    /// How many header fields to print (5..=9); fields beyond must be zero.
    pub header_fields: u8,
}

fn header_counts(a: &AigOwned, binary: bool) -> [u64; 9] {
    [
        a.max_var_index,
        if binary { a.input_count } else { a.inputs.len() as u64 },
        a.latches.len() as u64,
        a.outputs.len() as u64,
        a.ands.len() as u64,
        a.bad.len() as u64,
        a.constraints.len() as u64,
        a.justice.len() as u64,
        a.fairness.len() as u64,
    ]
}

impl AigDoc {
    pub fn min_header_fields(&self) -> u8 {
        let c = header_counts(&self.aig, self.binary);
        let mut n = 9;
        while n > 5 && c[n - 1] == 0 {
            n -= 1;
        }
        n as u8
    }

    /// Items as the streaming drivers report them.
    pub fn expected_stream(&self) -> Vec<Item> {
        let a = &self.aig;
        let mut v = vec![Item::Header(header_counts(a, self.binary).to_vec())];
        if !self.binary {
            for &i in &a.inputs {
                v.push(Item::Lit { section: 'i', code: i });
            }
        }
        for &(s, n, init) in &a.latches {
            v.push(Item::Latch {
                state: if self.binary { None } else { s },
                next: n,
                init,
            });
        }
        for &o in &a.outputs {
            v.push(Item::Lit { section: 'o', code: o });
        }
        for &o in &a.bad {
            v.push(Item::Lit { section: 'b', code: o });
        }
        for &o in &a.constraints {
            v.push(Item::Lit { section: 'c', code: o });
        }
        for j in &a.justice {
            v.push(Item::JusticeSize(j.len() as u64));
        }
        for j in &a.justice {
            for &l in j {
                v.push(Item::Lit { section: 'j', code: l });
            }
        }
        for &o in &a.fairness {
            v.push(Item::Lit { section: 'f', code: o });
        }
        for &(o, i0, i1) in &a.ands {
            let (i0, i1) = if self.binary && i0 < i1 { (i1, i0) } else { (i0, i1) };
            v.push(Item::And {
                out: if self.binary { None } else { o },
                ins: [i0, i1],
            });
        }
        for (k, i, n) in &a.symbols {
            v.push(Item::Symbol {
                kind: *k,
                index: *i,
                name: n.clone(),
            });
        }
        if let Some(c) = &a.comment {
            v.push(Item::Comment(c.clone()));
        }
        v
    }

    /// The value `parse()` returns.
    pub fn expected_whole(&self) -> Item {
        let mut a = self.aig.clone();
        if self.binary {
            a.inputs.clear();
            for l in &mut a.latches {
                l.0 = None;
            }
            for g in &mut a.ands {
                g.0 = None;
                if g.1 < g.2 {
                    std::mem::swap(&mut g.1, &mut g.2);
                }
            }
        } else {
            a.input_count = a.inputs.len() as u64;
        }
        Item::Aig(Box::new(a))
    }
}

fn varint(mut v: u64, out: &mut Vec<u8>) {
    loop {
        let b = (v & 0x7f) as u8;
        v >>= 7;
        if v == 0 {
            out.push(b);
            break;
        }
        out.push(b | 0x80);
    }
}

/// Reference rendering from the AIGER format description (1.9, with the B C J F extension).
pub fn render_aiger(doc: &AigDoc) -> Rendered {
    let a = &doc.aig;
    let mut out = Out::new();
    let mut item = 0usize;
    let counts = header_counts(a, doc.binary);
    let nf = doc.header_fields.clamp(doc.min_header_fields(), 9) as usize;
    out.tok(if doc.binary { b"aig" } else { b"aag" }, Role::Keyword, item);
    for f in &counts[..nf] {
        out.raw(b" ");
        out.tok(f.to_string().as_bytes(), Role::Num, item);
    }
    out.raw(b"\n");
    out.end_item();
    item += 1;
    let lit_line = |out: &mut Out, item: &mut usize, v: u64| {
        out.tok(v.to_string().as_bytes(), Role::Num, *item);
        out.raw(b"\n");
        out.end_item();
        *item += 1;
    };
    if !doc.binary {
        for &i in &a.inputs {
            lit_line(&mut out, &mut item, i);
        }
    }
    let mut code = 2 * (counts[1] + 1);
    for &(s, n, init) in &a.latches {
        let state = if doc.binary { code } else { s.unwrap_or(code) };
        if !doc.binary {
            out.tok(state.to_string().as_bytes(), Role::Num, item);
            out.raw(b" ");
        }
        out.tok(n.to_string().as_bytes(), Role::Num, item);
        match init {
            Some(false) => {}
            Some(true) => {
                out.raw(b" ");
                out.tok(b"1", Role::Num, item);
            }
            None => {
                out.raw(b" ");
                out.tok(state.to_string().as_bytes(), Role::Num, item);
            }
        }
        out.raw(b"\n");
        out.end_item();
        item += 1;
        code = code.wrapping_add(2);
    }
    for &o in a.outputs.iter().chain(&a.bad).chain(&a.constraints) {
        lit_line(&mut out, &mut item, o);
    }
    for j in &a.justice {
        lit_line(&mut out, &mut item, j.len() as u64);
    }
    for j in &a.justice {
        for &l in j {
            lit_line(&mut out, &mut item, l);
        }
    }
    for &o in &a.fairness {
        lit_line(&mut out, &mut item, o);
    }
    for &(o, i0, i1) in &a.ands {
        if doc.binary {
            let (hi, lo) = if i0 < i1 { (i1, i0) } else { (i0, i1) };
            let mut b = vec![];
            varint(code.wrapping_sub(hi), &mut b);
            out.tok(&b, Role::Delta, item);
            let mut b = vec![];
            varint(hi.wrapping_sub(lo), &mut b);
            out.tok(&b, Role::Delta, item);
            out.cut_here();
            code = code.wrapping_add(2);
        } else {
            out.tok(o.unwrap_or(0).to_string().as_bytes(), Role::Num, item);
            out.raw(b" ");
            out.tok(i0.to_string().as_bytes(), Role::Num, item);
            out.raw(b" ");
            out.tok(i1.to_string().as_bytes(), Role::Num, item);
            out.raw(b"\n");
        }
        out.end_item();
        item += 1;
    }
    for (k, i, name) in &a.symbols {
        let mut t = vec![*k as u8];
        t.extend_from_slice(i.to_string().as_bytes());
        out.tok(&t, Role::Keyword, item);
        out.raw(b" ");
        out.tok(name.as_bytes(), Role::Name, item);
        out.raw(b"\n");
        out.end_item();
        item += 1;
    }
    if let Some(c) = &a.comment {
        out.tok(b"c", Role::Keyword, item);
        out.raw(b"\n");
        out.tok(c.as_bytes(), Role::Comment, item);
        out.raw(b"\n");
        out.end_item();
    }
    // binary and-gate bytes may contain 0x0a; the cuts computed from raw() are then too fine but
    // still valid read boundaries for a "line-bounded" source (a finer partition is allowed).
    out.finish()
}

pub fn aiger_max_code(lit: u8) -> u64 {
    match lit % 5 {
        0 => u8::MAX as u64,
        1 => u16::MAX as u64,
        2 => u32::MAX as u64,
        _ => u64::MAX,
    }
}

pub fn name_strategy() -> impl Strategy<Value = String> {
    prop_oneof![
        4 => "[a-z_][a-z0-9_\\[\\]]{0,8}",
        1 => Just(String::new()),
        1 => Just("with space and\ttab".to_string()),
        1 => Just("c".to_string()),
        1 => Just("i0 o1".to_string()),
        1 => Just("ünï©ode ✓".to_string()),
        1 => Just(" leading".to_string()),
        1 => "[ -~]{0,20}",
    ]
}

pub fn comment_strategy() -> impl Strategy<Value = String> {
    prop_oneof![
        2 => Just(String::new()),
        2 => "[ -~]{0,30}",
        1 => Just("two\nlines".to_string()),
        1 => Just("trailing newline\n".to_string()),
        1 => Just("\n\n".to_string()),
        1 => Just("c\ni0 x\nünï".to_string()),
    ]
}

/// A well-formed AIGER document for literal type `lit`. `ordered`: inputs, latches and and-gates
/// numbered consecutively and gate inputs below the gate (required for binary files).
pub fn aig_doc_strategy(lit: u8, binary: bool) -> impl Strategy<Value = AigDoc> {
    let max_code = aiger_max_code(lit);
    let max_m = (max_code - 1) / 2;
    (
        (
            // binary files do not list their inputs, so a large input count is free and makes the
            // and-gate deltas need 2-3 bytes
            prop_oneof![6 => 0u64..=4, 2 => 60u64..=70, 1 => 100u64..=9000, 1 => 16380u64..=16390],
            0u64..=3,
            0u64..=5,
        ), // I, L, A
        proptest::collection::vec(any::<u32>(), 40), // literal choices
        // O, B, C, J, F counts: small, or (one case in ~60 per section) more entries than a u8 counts
        (
            prop_oneof![60 => 0usize..=3, 1 => 256usize..=300],
            prop_oneof![60 => 0usize..=2, 1 => 256usize..=300],
            prop_oneof![60 => 0usize..=2, 1 => 256usize..=300],
            prop_oneof![45 => 0usize..=2, 15 => 3usize..=5, 1 => 256usize..=270],
            prop_oneof![60 => 0usize..=2, 1 => 256usize..=300],
        ),
        proptest::collection::vec((any::<u8>(), any::<u16>(), name_strategy()), 0..=4),
        proptest::option::weighted(0.4, comment_strategy()),
        0u8..3, // max_var slack mode
        5u8..=9,
        any::<bool>(), // shuffle numbering for ascii
    )
        .prop_map(move |((mut i, mut l, mut a), picks, (no, nb, nc, nj, nf), syms, comment, slack, hf, shuffle)| {
            if !binary && i > 4 {
                i %= 5; // ASCII files list every input
            }
            if i > max_m {
                i = max_m.saturating_sub(l + a);
            }
            // respect the type's limit
            while i + l + a > max_m {
                if a > 0 {
                    a -= 1
                } else if l > 0 {
                    l -= 1
                } else {
                    i -= 1
                }
            }
            let used = i + l + a;
            let m = match slack {
                0 => used,
                1 => (used + 2).min(max_m),
                _ => max_m,
            };
            let mut p = picks.iter().cycle();
            let mut pick = |n: u64| -> u64 { (((*p.next().unwrap() as u128) * (n as u128)) >> 32) as u64 };
            // variable numbering: ordered, or (ascii only) a permutation of 1..=used placed
            // somewhere in 1..=m
            let mut vars: Vec<u64> = (1..=used).collect();
            if !binary && shuffle && used > 1 {
                for k in (1..vars.len()).rev() {
                    let j = pick(k as u64 + 1) as usize;
                    vars.swap(k, j);
                }
                if m > used {
                    let shift = pick(m - used + 1);
                    for v in &mut vars {
                        *v += shift;
                    }
                }
            }
            let inputs: Vec<u64> = vars[..i as usize].iter().map(|v| v * 2).collect();
            let latch_vars = &vars[i as usize..(i + l) as usize];
            let gate_vars = &vars[(i + l) as usize..];
            let any_lit = |pick: &mut dyn FnMut(u64) -> u64| -> u64 {
                // uniform-ish over 0..=2m+1 (2m+2 may not fit into u64 for the widest type)
                let top = 2 * m + 1;
                let v = pick(top);
                if pick(8) == 0 { top } else { v }
            };
            let mut latches = vec![];
            for (k, v) in latch_vars.iter().enumerate() {
                let next = any_lit(&mut pick);
                let init = match pick(3) {
                    0 => Some(false),
                    1 => Some(true),
                    _ => None,
                };
                let _ = k;
                latches.push((Some(v * 2), next, init));
            }
            let mut ands = vec![];
            for (k, v) in gate_vars.iter().enumerate() {
                let out = v * 2;
                let (i0, i1) = if binary {
                    // inputs below the gate's own code, larger first
                    let code = 2 * (i + l + k as u64 + 1);
                    let x = pick(code);
                    let y = pick(x + 1);
                    if pick(2) == 0 { (x, y) } else { (y, x) }
                } else {
                    (any_lit(&mut pick), any_lit(&mut pick))
                };
                ands.push((Some(out), i0, i1));
            }
            let lits = |n: usize, pick: &mut dyn FnMut(u64) -> u64| -> Vec<u64> {
                (0..n).map(|_| any_lit(pick)).collect()
            };
            let outputs = lits(no, &mut pick);
            let bad = lits(nb, &mut pick);
            let constraints = lits(nc, &mut pick);
            let justice: Vec<Vec<u64>> = (0..nj)
                .map(|k| {
                    // mostly 0..=2 conditions; sometimes more than a u8 / (rarely) a u16 can count
                    // (large ones only among the first properties: the choices repeat cyclically)
                    let n = match pick(2000) {
                        _ if k >= 3 => pick(3),
                        0 if k == 0 => 65536 + pick(3),
                        0 => pick(3),
                        1..=50 => 250 + pick(20),
                        // (more than any fixed pre-allocation cap of a few hundred entries)
                        51..=60 => 1020 + pick(12),
                        _ => pick(3),
                    } as usize;
                    lits(n, &mut pick)
                })
                .collect();
            let fairness = lits(nf, &mut pick);
            let counts: [(char, u64); 7] = [
                ('i', i),
                ('o', no as u64),
                ('l', l),
                ('b', nb as u64),
                ('c', nc as u64),
                ('j', nj as u64),
                ('f', nf as u64),
            ];
            let mut symbols = vec![];
            for (k, idx, name) in syms {
                let avail: Vec<(char, u64)> = counts.iter().copied().filter(|(_, n)| *n > 0).collect();
                if avail.is_empty() {
                    break;
                }
                let (kind, n) = avail[(k as usize) % avail.len()];
                let index = (idx as u64 * n) >> 16;
                let mut name = name;
                name.retain(|c| c != '\n');
                symbols.push((kind, index, name));
            }
            let aig = AigOwned {
                max_var_index: m,
                inputs: if binary { vec![] } else { inputs },
                input_count: i,
                latches,
                outputs,
                bad,
                constraints,
                justice,
                fairness,
                ands,
                symbols,
                comment,
            };
            AigDoc {
                binary,
                aig,
                header_fields: hf,
            }
        })
}

// ---------------------------------------------------------------------------------------------
// BTOR2

pub fn btor_symbol_strategy() -> impl Strategy<Value = Option<HexBytes>> {
    proptest::option::weighted(
        0.4,
        prop_oneof![
            4 => "[a-zA-Z_][a-zA-Z0-9_.$\\[\\]]{0,10}".prop_map(|s| s.into_bytes()),
            1 => Just(b"x;y".to_vec()),
            1 => Just("sümbol".as_bytes().to_vec()),
            1 => Just(vec![0xff, b'a', 0x80]),
            1 => Just(b"0".to_vec()),
            1 => Just(b"\r".to_vec()),
        ]
        .prop_map(HexBytes),
    )
}

pub fn btor_comment_strategy() -> impl Strategy<Value = Option<HexBytes>> {
    proptest::option::weighted(
        0.3,
        prop_oneof![
            2 => Just(vec![]),
            3 => "[ -~]{0,24}".prop_map(|s| s.into_bytes()),
            1 => Just(b" ; nested ; 1 sort bitvec 1".to_vec()),
            1 => Just(vec![b' ', 0xff, 0xfe, b'\r']),
        ]
        .prop_map(HexBytes),
    )
}

fn id_strategy() -> impl Strategy<Value = u64> {
    prop_oneof![
        10 => 1u64..=40,
        2 => 1u64..=u64::MAX,
        1 => Just(u64::MAX),
        1 => prop_oneof![Just(9_999_999u64), Just(10_000_000), Just(99_999_999), Just(100_000_000)],
    ]
}

fn idx_strategy() -> impl Strategy<Value = u64> {
    prop_oneof![6 => 0u64..=64, 1 => any::<u64>(), 1 => Just(u64::MAX), 1 => Just(0u64)]
}

pub fn bvar_strategy() -> impl Strategy<Value = BVar> {
    let s = id_strategy;
    prop_oneof![
        2 => id_strategy().prop_map(BVar::SortBitvec),
        1 => (s(), s()).prop_map(|(a, b)| BVar::SortArray(a, b)),
        2 => (s(), "[01]{1,70}").prop_map(|(sort, text)| BVar::ConstText { kind: 'b', sort, text }),
        2 => (s(), "-?[0-9]{1,30}").prop_map(|(sort, text)| BVar::ConstText { kind: 'd', sort, text }),
        1 => s().prop_map(|sort| BVar::ConstText { kind: 'd', sort, text: "-".into() }),
        2 => (s(), "[0-9a-fA-F]{1,40}").prop_map(|(sort, text)| BVar::ConstText { kind: 'h', sort, text }),
        2 => (s(), prop_oneof![Just("one"), Just("ones"), Just("zero")])
            .prop_map(|(sort, k)| BVar::ConstSimple { kind: k.into(), sort }),
        1 => s().prop_map(BVar::Input),
        1 => s().prop_map(BVar::State),
        4 => (0usize..7, s(), s()).prop_map(|(op, sort, a)| BVar::Unary { op, sort, a }),
        2 => (any::<bool>(), s(), s(), idx_strategy()).prop_map(|(signed, sort, a, pad)| BVar::Ext { signed, sort, a, pad }),
        2 => (s(), s(), idx_strategy(), idx_strategy()).prop_map(|(sort, a, upper, lower)| BVar::Slice { sort, a, upper, lower }),
        10 => (0usize..40, s(), s(), s()).prop_map(|(op, sort, a, b)| BVar::Binary { op, sort, a, b }),
        2 => (any::<bool>(), s(), s(), s(), s()).prop_map(|(write, sort, a, b, c)| BVar::Ternary { write, sort, a, b, c }),
        2 => (any::<bool>(), s(), s(), s()).prop_map(|(next, sort, state, value)| BVar::Assign { next, sort, state, value }),
        3 => (prop_oneof![Just("output"), Just("bad"), Just("constraint"), Just("fair")], s())
            .prop_map(|(k, value)| BVar::Output { kind: k.into(), value }),
        2 => proptest::collection::vec(s(), 1..=5).prop_map(BVar::Justice),
    ]
}

/// Constant nodes whose text is only a *candidate*: the validating constructors have to decide
/// whether it is in the domain (C03).
pub fn bline_candidate_const_strategy() -> impl Strategy<Value = BLine> {
    (
        id_strategy(),
        id_strategy(),
        prop_oneof![Just('b'), Just('d'), Just('h')],
        prop_oneof![
            3 => "[0-9a-fA-F-]{0,10}",
            1 => "[0-2]{1,6}",
            1 => "[ -~]{1,4}",
            1 => "[0-9]{0,3}[²³٣]",
        ],
    )
        .prop_map(|(id, sort, kind, text)| BLine::Node {
            id,
            var: BVar::ConstText { kind, sort, text },
            symbol: None,
            comment: None,
        })
}

pub fn bline_strategy() -> impl Strategy<Value = BLine> {
    prop_oneof![
        1 => prop_oneof![
            Just(vec![]),
            "[ -~]{0,30}".prop_map(|s| s.into_bytes()),
            Just(vec![b' ', 0xc3, 0x28, 0xff]),
        ]
        .prop_map(BLine::Comment),
        8 => (id_strategy(), bvar_strategy(), btor_symbol_strategy(), btor_comment_strategy())
            .prop_map(|(id, var, symbol, comment)| BLine::Node { id, var, symbol, comment }),
    ]
}

pub fn btor_doc_strategy(max_lines: usize) -> impl Strategy<Value = Vec<BLine>> {
    proptest::collection::vec(bline_strategy(), 0..=max_lines)
}

/// Reference rendering of a BTOR2 document. With `fancy`, blank lines and leading spaces are
/// inserted between lines (the parser documents them as skipped) and the final newline may be
/// dropped after a comment.
pub fn render_btor(lines: &[BLine], choices: &[u8], fancy: bool) -> Rendered {
    let mut ch = Choices::new(choices);
    let mut out = Out::new();
    for (i, l) in lines.iter().enumerate() {
        if fancy {
            let mut rounds = 0;
            while rounds < 3 && ch.chance(2) {
                rounds += 1;
                out.raw(b"\n");
                out.feature("blank-line");
            }
            if ch.chance(2) {
                out.raw(b"  ");
                out.feature("leading-ws");
            }
        }
        for (wi, (word, role)) in btor_words(l).iter().enumerate() {
            if wi > 0 {
                out.raw(b" ");
            }
            out.tok(word, *role, i);
        }
        let ends_with_comment = matches!(l, BLine::Comment(_))
            || matches!(l, BLine::Node { comment: Some(_), .. });
        if i + 1 == lines.len() && fancy && ends_with_comment && ch.chance(5) {
            out.feature("no-final-newline");
        } else {
            out.raw(b"\n");
        }
        out.end_item();
    }
    out.finish()
}

/// The words of a BTOR2 line (joined by single spaces), each with its role.
pub fn btor_words(l: &BLine) -> Vec<(Vec<u8>, Role)> {
    use crate::btor::{BINARY_NAMES, UNARY_PLAIN_NAMES};
    let n = |v: &u64| (v.to_string().into_bytes(), Role::Num);
    let k = |s: &str| (s.as_bytes().to_vec(), Role::Keyword);
    match l {
        BLine::Comment(c) => {
            let mut t = vec![b';'];
            t.extend_from_slice(c);
            vec![(t, Role::Comment)]
        }
        BLine::Node { id, var, symbol, comment } => {
            let mut w = vec![n(id)];
            match var {
                BVar::SortBitvec(x) => w.extend([k("sort"), k("bitvec"), n(x)]),
                BVar::SortArray(d, c) => w.extend([k("sort"), k("array"), n(d), n(c)]),
                BVar::ConstText { kind, sort, text } => w.extend([
                    k(match kind {
                        'b' => "const",
                        'd' => "constd",
                        _ => "consth",
                    }),
                    n(sort),
                    (text.as_bytes().to_vec(), Role::Other),
                ]),
                BVar::ConstSimple { kind, sort } => w.extend([k(kind), n(sort)]),
                BVar::Input(s) => w.extend([k("input"), n(s)]),
                BVar::State(s) => w.extend([k("state"), n(s)]),
                BVar::Unary { op, sort, a } => w.extend([k(UNARY_PLAIN_NAMES[*op % 7]), n(sort), n(a)]),
                BVar::Ext { signed, sort, a, pad } => {
                    w.extend([k(if *signed { "sext" } else { "uext" }), n(sort), n(a), n(pad)])
                }
                BVar::Slice { sort, a, upper, lower } => w.extend([k("slice"), n(sort), n(a), n(upper), n(lower)]),
                BVar::Binary { op, sort, a, b } => w.extend([k(BINARY_NAMES[*op % 40]), n(sort), n(a), n(b)]),
                BVar::Ternary { write, sort, a, b, c } => {
                    w.extend([k(if *write { "write" } else { "ite" }), n(sort), n(a), n(b), n(c)])
                }
                BVar::Assign { next, sort, state, value } => {
                    w.extend([k(if *next { "next" } else { "init" }), n(sort), n(state), n(value)])
                }
                BVar::Output { kind, value } => w.extend([k(kind), n(value)]),
                BVar::Justice(ns) => {
                    w.push(k("justice"));
                    w.push(((ns.len() as u64).to_string().into_bytes(), Role::Num));
                    for x in ns {
                        w.push(n(x));
                    }
                }
            }
            if let Some(s) = symbol {
                w.push((s.0.clone(), Role::Name));
            }
            if let Some(c) = comment {
                let mut t = vec![b';'];
                t.extend_from_slice(&c.0);
                w.push((t, Role::Comment));
            }
            w
        }
    }
}

pub fn btor_expected(lines: &[BLine]) -> Vec<Item> {
    lines.iter().cloned().map(Item::Btor).collect()
}

// ---------------------------------------------------------------------------------------------
// A document of any format

#[derive(Clone, Debug, PartialEq, Eq, Hash, Serialize, Deserialize)]
pub enum Doc {
    Dimacs(DimacsDoc),
    Log(LogDoc),
    Aiger(AigDoc),
    Btor(Vec<BLine>),
}

impl Doc {
    pub fn render(&self, choices: &[u8], fancy: bool, junk: bool) -> Rendered {
        match self {
            Doc::Dimacs(d) => render_dimacs(d, choices, fancy),
            Doc::Log(d) => render_log(d, choices, fancy, junk),
            Doc::Aiger(d) => render_aiger(d),
            Doc::Btor(d) => render_btor(d, choices, fancy),
        }
    }
    /// Items a streaming driver must report for the rendered text.
    pub fn expected(&self, spec: &Spec) -> Vec<Item> {
        match self {
            Doc::Dimacs(d) => d.expected(),
            Doc::Log(d) => d.expected(),
            Doc::Aiger(d) => match spec.parser {
                ParserId::AagParse | ParserId::AigParse => vec![d.expected_whole()],
                _ if spec.skip_mode() => crate::drivers::skip_filter(&d.expected_stream()),
                _ => d.expected_stream(),
            },
            Doc::Btor(d) => btor_expected(d),
        }
    }
}

/// A document suitable for `spec` (format and literal type).
pub fn doc_strategy(spec: Spec, max_items: usize) -> BoxedStrategy<Doc> {
    match spec.parser {
        ParserId::Cnf | ParserId::Wcnf | ParserId::Gcnf => {
            dimacs_doc_strategy(spec.parser, spec.lit, max_items).prop_map(Doc::Dimacs).boxed()
        }
        ParserId::Log => log_doc_strategy(spec.lit).prop_map(Doc::Log).boxed(),
        ParserId::Aag | ParserId::AagParse => aig_doc_strategy(spec.lit, false).prop_map(Doc::Aiger).boxed(),
        ParserId::Aig | ParserId::AigParse => aig_doc_strategy(spec.lit, true).prop_map(Doc::Aiger).boxed(),
        ParserId::Btor2 => btor_doc_strategy(max_items).prop_map(Doc::Btor).boxed(),
    }
}

pub fn spec_strategy() -> impl Strategy<Value = Spec> {
    (
        proptest::sample::select(crate::drivers::ALL_PARSERS.to_vec()),
        0u8..5,
        any::<bool>(),
    )
        .prop_map(|(parser, lit, flag)| Spec {
            parser,
            lit,
            flag: flag && Spec::flag_applies(parser),
        })
}

pub fn choices_strategy() -> impl Strategy<Value = Vec<u8>> {
    proptest::collection::vec(any::<u8>(), 0..48)
}

//! Verification harness for jix/flussab: property-based testing and fuzzing oracles.
pub mod alloc;
pub mod btor;
pub mod drivers;
pub mod engine;
pub mod fuzzdec;
pub mod gen;
pub mod inputs;
pub mod props;
pub mod reader_model;
pub mod refs;
pub mod source;
pub mod writer_model;

//! Scheduled byte source (`impl Read`) with a call log, and strategies for read schedules,
//! chunk sizes and reader constructors.
use std::cell::RefCell;
use std::io::{self, BufRead, BufReader, Read};
use std::rc::Rc;

use flussab::DeferredReader;
use proptest::prelude::*;
use serde::{Deserialize, Serialize};

#[derive(Serialize, Deserialize, Clone, Copy, Debug, PartialEq, Eq, Hash)]
pub enum Step {
    /// Hand over at most this many bytes.
    Give(u32),
    /// Return `ErrorKind::Interrupted`.
    Intr,
    /// Return `ErrorKind::Interrupted` this many times in a row (a signal storm); from the
    /// fifth round of the cycle on, once.
    IntrBurst(u16),
}

#[derive(Serialize, Deserialize, Clone, Copy, Debug, PartialEq, Eq, Hash)]
pub enum ErrKind {
    Other,
    UnexpectedEof,
    BrokenPipe,
    TimedOut,
    WouldBlock,
    ConnectionReset,
    InvalidData,
    PermissionDenied,
    ConnectionAborted,
    NotConnected,
    InvalidInput,
    WriteZero,
    OutOfMemory,
    Unsupported,
    NotFound,
}

impl ErrKind {
    pub fn kind(self) -> io::ErrorKind {
        match self {
            ErrKind::Other => io::ErrorKind::Other,
            ErrKind::UnexpectedEof => io::ErrorKind::UnexpectedEof,
            ErrKind::BrokenPipe => io::ErrorKind::BrokenPipe,
            ErrKind::TimedOut => io::ErrorKind::TimedOut,
            ErrKind::WouldBlock => io::ErrorKind::WouldBlock,
            ErrKind::ConnectionReset => io::ErrorKind::ConnectionReset,
            ErrKind::InvalidData => io::ErrorKind::InvalidData,
            ErrKind::PermissionDenied => io::ErrorKind::PermissionDenied,
            ErrKind::ConnectionAborted => io::ErrorKind::ConnectionAborted,
            ErrKind::NotConnected => io::ErrorKind::NotConnected,
            ErrKind::InvalidInput => io::ErrorKind::InvalidInput,
            ErrKind::WriteZero => io::ErrorKind::WriteZero,
            ErrKind::OutOfMemory => io::ErrorKind::OutOfMemory,
            ErrKind::Unsupported => io::ErrorKind::Unsupported,
            ErrKind::NotFound => io::ErrorKind::NotFound,
        }
    }
    pub fn all() -> [ErrKind; 15] {
        [
            ErrKind::Other,
            ErrKind::UnexpectedEof,
            ErrKind::BrokenPipe,
            ErrKind::TimedOut,
            ErrKind::WouldBlock,
            ErrKind::ConnectionReset,
            ErrKind::InvalidData,
            ErrKind::PermissionDenied,
            ErrKind::ConnectionAborted,
            ErrKind::NotConnected,
            ErrKind::InvalidInput,
            ErrKind::WriteZero,
            ErrKind::OutOfMemory,
            ErrKind::Unsupported,
            ErrKind::NotFound,
        ]
    }
}

pub const FAULT_MSG: &str = "injected source failure";

/// Payload of the injected error: lets the checks tell the source's own error value from a
/// re-created look-alike (same kind and text).
#[derive(Debug)]
pub struct InjectedFault;
impl std::fmt::Display for InjectedFault {
    fn fmt(&self, f: &mut std::fmt::Formatter<'_>) -> std::fmt::Result {
        f.write_str(FAULT_MSG)
    }
}
impl std::error::Error for InjectedFault {}

pub const OWN_VALUE_TAG: &str = " [the source's own error value]";

pub fn is_injected(e: &io::Error) -> bool {
    e.get_ref().map_or(false, |r| {
        r.is::<InjectedFault>() || r.downcast_ref::<io::Error>().map_or(false, |inner| inner.get_ref().map_or(false, |p| p.is::<InjectedFault>()))
    })
}

/// The error value of a failing source: marker payload, or (wrapped) an inner error of a different
/// kind carrying the marker.
pub fn injected_error(kind: ErrKind, wrapped: bool) -> io::Error {
    if wrapped {
        let inner_kind = if kind.kind() == io::ErrorKind::TimedOut { io::ErrorKind::Other } else { io::ErrorKind::TimedOut };
        io::Error::new(kind.kind(), io::Error::new(inner_kind, InjectedFault))
    } else {
        io::Error::new(kind.kind(), InjectedFault)
    }
}

/// Text of an I/O error as the drivers record it.
pub fn describe_io(e: &io::Error) -> String {
    format!("{}{}", e, if is_injected(e) { OWN_VALUE_TAG } else { "" })
}

/// A read schedule: a cyclic pattern of steps, an optional fault after exactly `k` delivered
/// bytes, optionally bounded so that no read crosses a line end (or an explicit cut).
#[derive(Serialize, Deserialize, Clone, Debug, PartialEq, Eq, Hash)]
pub struct Schedule {
    pub steps: Vec<Step>,
    #[serde(default)]
    pub fail_at: Option<(usize, ErrKind)>,
    #[serde(default)]
    pub line_bounded: bool,
    /// C14 only: at the n-th data read, report `extra` more bytes than were copied.
    #[serde(default)]
    pub overreport: Option<(u32, u32)>,
    /// With `fail_at`: the source keeps returning its error on every later call (a dead
    /// connection) instead of reporting end of input afterwards (a glitch).
    #[serde(default)]
    pub sticky: bool,
    /// With `fail_at`: the error's payload is itself an `io::Error` (of another kind) that carries
    /// the marker: what the caller must get is the outer error, not its "root cause".
    #[serde(default)]
    pub wrapped: bool,
}

impl Schedule {
    pub fn whole() -> Schedule {
        Schedule {
            steps: vec![Step::Give(u32::MAX)],
            fail_at: None,
            line_bounded: false,
            overreport: None,
            sticky: false,
            wrapped: false,
        }
    }
    pub fn bytewise() -> Schedule {
        Schedule {
            steps: vec![Step::Give(1)],
            ..Schedule::whole()
        }
    }
    pub fn fixed(n: u32) -> Schedule {
        Schedule {
            steps: vec![Step::Give(n.max(1))],
            ..Schedule::whole()
        }
    }
    /// Guarantees progress: at least one `Give(n >= 1)` in the cycle.
    pub fn normalised(mut self) -> Schedule {
        for s in &mut self.steps {
            if let Step::Give(0) = s {
                *s = Step::Give(1);
            }
        }
        if !self.steps.iter().any(|s| matches!(s, Step::Give(_))) {
            self.steps.push(Step::Give(1));
        }
        self
    }
    pub fn class(&self) -> &'static str {
        if self.steps.iter().any(|s| matches!(s, Step::IntrBurst(n) if *n >= 17)) {
            return "long-intr-burst";
        }
        let intr = self.steps.iter().any(|s| matches!(s, Step::Intr | Step::IntrBurst(_)));
        let gives: Vec<u32> = self
            .steps
            .iter()
            .filter_map(|s| match s {
                Step::Give(n) => Some(*n),
                _ => None,
            })
            .collect();
        match (gives.as_slice(), intr) {
            ([n], false) if *n == u32::MAX => "whole",
            ([1], false) => "bytewise",
            ([_], false) => "fixed-step",
            ([n], true) if *n == u32::MAX => "whole+intr",
            ([1], true) => "bytewise+intr",
            ([_], true) => "fixed-step+intr",
            (_, false) => "mixed",
            (_, true) => "mixed+intr",
        }
    }
}

#[derive(Default, Clone, Debug)]
pub struct SrcLog {
    /// All `read` calls (not counting the BufReader prefill).
    pub calls: u64,
    /// Calls that returned at least one byte.
    pub data_reads: u64,
    pub interrupts: u64,
    /// Bytes handed over so far (including the prefill).
    pub delivered: usize,
    /// Bytes handed over to a BufReader during construction.
    pub prefilled: usize,
    /// The terminal result (Ok(0) at the end, or the injected error) was returned.
    pub terminal_returned: bool,
    pub terminal_was_error: bool,
    /// Calls made after the terminal result had been returned. Must stay 0.
    pub calls_after_terminal: u64,
    pub min_offer: usize,
    pub max_offer: usize,
    pub empty_offers: u64,
    pub last_give: usize,
    pub overreports: u64,
    /// Reads whose destination slice held more allocator-poison bytes than the source's own data
    /// can explain: uninitialised memory was handed to `Read::read`.
    pub poisoned_offers: u64,
}

pub struct Source {
    data: Rc<Vec<u8>>,
    pos: usize,
    sched: Schedule,
    step: usize,
    cuts: Option<Rc<Vec<usize>>>,
    cut_idx: usize,
    log: Rc<RefCell<SrcLog>>,
    prefill: Rc<RefCell<bool>>,
    overreported: bool,
    burst_left: u32,
    poison_in_data: usize,
}

impl Source {
    pub fn new(data: Rc<Vec<u8>>, sched: Schedule) -> (Source, Rc<RefCell<SrcLog>>) {
        Self::with_cuts(data, sched, None)
    }

    /// `cuts`: sorted offsets; no read crosses the next cut after the current position. With
    /// `line_bounded` and no explicit cuts, the cuts are the offsets just after every LF.
    pub fn with_cuts(
        data: Rc<Vec<u8>>,
        sched: Schedule,
        cuts: Option<Rc<Vec<usize>>>,
    ) -> (Source, Rc<RefCell<SrcLog>>) {
        let sched = sched.normalised();
        let cuts = match (cuts, sched.line_bounded) {
            (Some(c), _) => Some(c),
            (None, true) => Some(Rc::new(
                data.iter()
                    .enumerate()
                    .filter(|(_, &b)| b == b'\n')
                    .map(|(i, _)| i + 1)
                    .collect(),
            )),
            (None, false) => None,
        };
        let log = Rc::new(RefCell::new(SrcLog {
            min_offer: usize::MAX,
            ..SrcLog::default()
        }));
        (
            Source {
                data,
                pos: 0,
                sched,
                step: 0,
                cuts,
                cut_idx: 0,
                log: log.clone(),
                prefill: Rc::new(RefCell::new(false)),
                overreported: false,
                burst_left: 0,
                poison_in_data: 0,
            },
            log,
        )
    }

    fn end(&self) -> usize {
        match self.sched.fail_at {
            Some((k, _)) => k.min(self.data.len()),
            None => self.data.len(),
        }
    }
}

impl Read for Source {
    fn read(&mut self, buf: &mut [u8]) -> io::Result<usize> {
        let prefill = *self.prefill.borrow();
        let mut log = self.log.borrow_mut();
        if !prefill {
            log.calls += 1;
            log.min_offer = log.min_offer.min(buf.len());
            log.max_offer = log.max_offer.max(buf.len());
            // the slice a reader offers holds zeros or stale bytes of this source, nothing else
            if self.poison_in_data == 0 {
                self.poison_in_data = 1 + self.data.iter().filter(|&&b| b == crate::alloc::POISON_BYTE).count();
            }
            let poison = buf.iter().take(1 << 16).filter(|&&b| b == crate::alloc::POISON_BYTE).count();
            if poison > self.poison_in_data + 16 {
                log.poisoned_offers += 1;
            }
        }
        if log.terminal_returned {
            log.calls_after_terminal += 1;
            if let (true, Some((_, kind))) = (self.sched.sticky && log.terminal_was_error, self.sched.fail_at) {
                return Err(injected_error(kind, self.sched.wrapped));
            }
            return Ok(0);
        }
        if buf.is_empty() {
            if !prefill {
                log.empty_offers += 1;
            }
            return Ok(0);
        }
        let end = self.end();
        if self.pos >= end {
            if prefill {
                // Do not consume the terminal event during BufReader construction.
                return Ok(0);
            }
            // The schedule applies to the terminal result too: interruptions that are due come
            // first (a signal may arrive while the source waits for the end of input).
            match self.sched.steps[self.step % self.sched.steps.len()] {
                Step::Intr => {
                    self.step += 1;
                    log.interrupts += 1;
                    return Err(io::Error::new(io::ErrorKind::Interrupted, "interrupted"));
                }
                Step::IntrBurst(n) if n > 0 => {
                    if self.burst_left == 0 {
                        let round = self.step / self.sched.steps.len();
                        self.burst_left = if round < 4 { n as u32 } else { 1 };
                    }
                    self.burst_left -= 1;
                    if self.burst_left == 0 {
                        self.step += 1;
                    }
                    log.interrupts += 1;
                    return Err(io::Error::new(io::ErrorKind::Interrupted, "interrupted"));
                }
                _ => {}
            }
            log.terminal_returned = true;
            return match self.sched.fail_at {
                Some((_, kind)) => {
                    log.terminal_was_error = true;
                    Err(injected_error(kind, self.sched.wrapped))
                }
                None => Ok(0),
            };
        }
        let n = loop {
            let step = self.sched.steps[self.step % self.sched.steps.len()];
            self.step += 1;
            match step {
                Step::Intr => {
                    if prefill {
                        continue;
                    }
                    log.interrupts += 1;
                    return Err(io::Error::new(io::ErrorKind::Interrupted, "interrupted"));
                }
                Step::IntrBurst(n) => {
                    if prefill || n == 0 {
                        continue;
                    }
                    if self.burst_left == 0 {
                        // full storms during the first four rounds of the cycle, single
                        // interruptions afterwards (keeps long documents affordable)
                        let round = (self.step - 1) / self.sched.steps.len();
                        self.burst_left = if round < 4 { n as u32 } else { 1 };
                    }
                    self.burst_left -= 1;
                    if self.burst_left > 0 {
                        self.step -= 1;
                    }
                    log.interrupts += 1;
                    return Err(io::Error::new(io::ErrorKind::Interrupted, "interrupted"));
                }
                Step::Give(n) => break n as usize,
            }
        };
        let mut n = n.max(1).min(buf.len()).min(end - self.pos);
        if let Some(cuts) = &self.cuts {
            while self.cut_idx < cuts.len() && cuts[self.cut_idx] <= self.pos {
                self.cut_idx += 1;
            }
            if self.cut_idx < cuts.len() {
                n = n.min(cuts[self.cut_idx] - self.pos);
            }
        }
        if let Some((at, extra)) = self.sched.overreport {
            if !prefill && !self.overreported && log.data_reads + 1 == at as u64 {
                // A lying source: copies nothing, keeps its position, reports too many bytes.
                self.overreported = true;
                log.overreports += 1;
                return Ok(buf.len() + 1 + extra as usize);
            }
        }
        buf[..n].copy_from_slice(&self.data[self.pos..self.pos + n]);
        self.pos += n;
        log.delivered += n;
        log.last_give = n;
        if prefill {
            log.prefilled += n;
            return Ok(n);
        }
        log.data_reads += 1;
        Ok(n)
    }
}

#[derive(Serialize, Deserialize, Clone, Copy, Debug, PartialEq, Eq, Hash)]
pub enum Ctor {
    FromRead,
    Boxed,
    /// `from_buf_reader` on a `BufReader` of this capacity whose buffer has been filled.
    BufReader(usize),
    /// `from_buf_reader` on a new `BufReader` of this capacity that has not read anything yet.
    FreshBufReader(usize),
}

impl Ctor {
    pub fn class(&self) -> &'static str {
        match self {
            Ctor::FromRead => "from_read",
            Ctor::Boxed => "from_boxed_dyn_read",
            Ctor::BufReader(_) => "from_buf_reader",
            Ctor::FreshBufReader(_) => "from_buf_reader(fresh)",
        }
    }
}

/// How the reader under test is set up.
#[derive(Serialize, Deserialize, Clone, Debug, PartialEq, Eq, Hash)]
pub struct Feed {
    pub sched: Schedule,
    /// `None`: keep the default chunk size (16 KiB).
    pub chunk: Option<usize>,
    pub ctor: Ctor,
    /// The chunk size is configured only after the first byte was requested with the default
    /// chunk size (a caller that sniffs the format first). Parser-level feeds only.
    #[serde(default)]
    pub late_chunk: bool,
}

impl Feed {
    /// The set-up used by the repository's tests: everything in one read, default chunk.
    pub fn one_shot() -> Feed {
        Feed {
            sched: Schedule::whole(),
            chunk: None,
            ctor: Ctor::FromRead,
            late_chunk: false,
        }
    }
    pub fn chunk_size(&self) -> usize {
        self.chunk.unwrap_or(16 << 10)
    }
    pub fn chunk_class(&self) -> &'static str {
        match self.chunk {
            None => "default-16k",
            Some(1) => "1",
            Some(2..=7) => "2..7",
            Some(8..=15) => "8..15",
            Some(16..=64) => "16..64",
            Some(_) => ">64",
        }
    }
}

/// A source prepared according to a feed, either already wrapped into a `DeferredReader` (when a
/// chunk size has to be set) or still raw, so that the parsers' own `from_read` /
/// `from_boxed_dyn_read` / `from_buf_reader` constructors can be exercised.
pub enum Init {
    Reader(DeferredReader<'static>),
    Read(Source),
    Boxed(Source),
    Buf(BufReader<Source>),
    /// A BufReader over any other source (C10's generated streams).
    BufDyn(BufReader<Box<dyn Read>>),
}

impl Init {
    pub fn into_reader(self) -> DeferredReader<'static> {
        match self {
            Init::Reader(r) => r,
            Init::Read(s) => DeferredReader::from_read(s),
            Init::Boxed(s) => DeferredReader::from_boxed_dyn_read(Box::new(s)),
            Init::Buf(b) => DeferredReader::from_buf_reader(b),
            Init::BufDyn(b) => DeferredReader::from_buf_reader(b),
        }
    }
}

pub fn build_init(
    data: Rc<Vec<u8>>,
    feed: &Feed,
    cuts: Option<Rc<Vec<usize>>>,
) -> (Init, Rc<RefCell<SrcLog>>) {
    if feed.chunk.is_some() {
        let (r, log) = build_reader(data, feed, cuts);
        return (Init::Reader(r), log);
    }
    let (src, log) = Source::with_cuts(data, feed.sched.clone(), cuts);
    let init = match feed.ctor {
        Ctor::FromRead => Init::Read(src),
        Ctor::Boxed => Init::Boxed(src),
        Ctor::BufReader(cap) => {
            let prefill = src.prefill.clone();
            *prefill.borrow_mut() = true;
            let mut br = BufReader::with_capacity(cap, src);
            let _ = br.fill_buf();
            *prefill.borrow_mut() = false;
            Init::Buf(br)
        }
        Ctor::FreshBufReader(cap) => Init::Buf(BufReader::with_capacity(cap, src)),
    };
    (init, log)
}

pub fn build_reader(
    data: Rc<Vec<u8>>,
    feed: &Feed,
    cuts: Option<Rc<Vec<usize>>>,
) -> (DeferredReader<'static>, Rc<RefCell<SrcLog>>) {
    let (r, log, _) = build_reader_consumed(data, feed, cuts, 0);
    (r, log)
}

/// Like `build_reader`; with the `BufReader` constructor, up to `consume` of the bytes sitting in
/// the BufReader's buffer are consumed before it is handed to `from_buf_reader` ("partly consumed
/// BufReader"). Returns how many bytes were consumed: the reader's stream starts behind them.
pub fn build_reader_consumed(
    data: Rc<Vec<u8>>,
    feed: &Feed,
    cuts: Option<Rc<Vec<usize>>>,
    consume: usize,
) -> (DeferredReader<'static>, Rc<RefCell<SrcLog>>, usize) {
    let mut skipped = 0;
    let (src, log) = Source::with_cuts(data, feed.sched.clone(), cuts);
    let mut reader = match feed.ctor {
        Ctor::FromRead => DeferredReader::from_read(src),
        Ctor::Boxed => DeferredReader::from_boxed_dyn_read(Box::new(src)),
        Ctor::BufReader(cap) => {
            let prefill = src.prefill.clone();
            *prefill.borrow_mut() = true;
            let mut br = BufReader::with_capacity(cap, src);
            let _ = br.fill_buf();
            *prefill.borrow_mut() = false;
            skipped = consume.min(br.buffer().len());
            br.consume(skipped);
            DeferredReader::from_buf_reader(br)
        }
        Ctor::FreshBufReader(cap) => DeferredReader::from_buf_reader(BufReader::with_capacity(cap, src)),
    };
    if let Some(c) = feed.chunk {
        if feed.late_chunk {
            let _ = reader.request_byte();
        }
        reader.set_chunk_size(c.max(1));
    }
    (reader, log, skipped)
}

// ---------------------------------------------------------------------------------------------
// Strategies

pub fn step_strategy() -> impl Strategy<Value = Step> {
    prop_oneof![
        6 => (1u32..=12).prop_map(Step::Give),
        2 => (13u32..=100).prop_map(Step::Give),
        1 => Just(Step::Intr),
    ]
}

pub fn schedule_strategy() -> impl Strategy<Value = Schedule> {
    let base = prop_oneof![
        2 => Just(vec![Step::Give(u32::MAX)]),
        3 => Just(vec![Step::Give(1)]),
        3 => (2u32..=9).prop_map(|n| vec![Step::Give(n)]),
        4 => proptest::collection::vec(step_strategy(), 1..10),
        1 => Just(vec![Step::Give(1), Step::Intr]),
        1 => Just(vec![Step::Intr, Step::Intr, Step::Give(3)]),
        1 => (prop_oneof![1u16..=40, 41u16..=300, Just(1000u16), Just(5000u16)], 1u32..=20)
            .prop_map(|(n, g)| vec![Step::IntrBurst(n), Step::Give(g)]),
    ];
    base.prop_map(|steps| {
        Schedule {
            steps,
            fail_at: None,
            line_bounded: false,
            overreport: None,
            sticky: false,
            wrapped: false,
        }
        .normalised()
    })
}

pub fn chunk_strategy() -> impl Strategy<Value = Option<usize>> {
    prop_oneof![
        3 => Just(Some(1usize)),
        4 => (2usize..=7).prop_map(Some),
        3 => (8usize..=15).prop_map(Some),
        3 => (16usize..=64).prop_map(Some),
        1 => Just(Some(4096usize)),
        1 => Just(None),
    ]
}

pub fn ctor_strategy() -> impl Strategy<Value = Ctor> {
    prop_oneof![
        3 => Just(Ctor::FromRead),
        2 => Just(Ctor::Boxed),
        3 => (1usize..=64).prop_map(Ctor::BufReader),
        1 => Just(Ctor::BufReader(0)),
        1 => prop_oneof![1usize..=64, Just(8192usize)].prop_map(Ctor::FreshBufReader),
        // std's default capacity, the reader's default chunk size and beyond (only matters for
        // documents of that size: the large-document oracles)
        1 => proptest::sample::select(vec![8192usize, 16384, 16385, 40000, 65536]).prop_map(Ctor::BufReader),
    ]
}

pub fn feed_strategy() -> impl Strategy<Value = Feed> {
    (schedule_strategy(), chunk_strategy(), ctor_strategy())
        .prop_map(|(sched, chunk, ctor)| Feed {
            sched,
            chunk,
            ctor,
            late_chunk: false,
        })
}

/// Feeds for checks that drive a parser: like `feed_strategy`, and one in ten configures the
/// chunk size only after a first read with the default size.
pub fn parser_feed_strategy() -> impl Strategy<Value = Feed> {
    (feed_strategy(), proptest::bool::weighted(0.1)).prop_map(|(mut f, late)| {
        f.late_chunk = late && f.chunk.is_some();
        f
    })
}

pub fn errkind_strategy() -> impl Strategy<Value = ErrKind> {
    proptest::sample::select(ErrKind::all().to_vec())
}

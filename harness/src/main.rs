//! `fv` — driver binary of the flussab verification harness.
//!
//!   fv run <Cxx> <quick|thorough>        parent: spawns the shard workers, merges, writes evidence
//!   fv shard <Cxx> <tier> <seed> <shard> <start_unit> <out_dir> <profile>   worker
//!   fv replay <file>                     re-executes one replay file (in a child process)
//!   fv replay-inner <file>               the child of `replay`
use std::collections::{BTreeMap, HashSet};
use std::fs;
use std::os::unix::process::ExitStatusExt;
use std::path::{Path, PathBuf};
use std::process::{Command, Stdio};
use std::time::Instant;

use flussab_verif::alloc::CountingAlloc;
use flussab_verif::engine::{self, Ctx, ReplayFile, ShardResult, Tier, ViolationRec, NSHARDS};
use flussab_verif::props::{self, PropDef};
use serde_json::{json, Value};

#[global_allocator]
static GLOBAL: CountingAlloc = CountingAlloc;

fn main() {
    let args: Vec<String> = std::env::args().collect();
    let code = match args.get(1).map(|s| s.as_str()) {
        Some("run") if args.len() >= 4 => parent(&args[2], &args[3]),
        Some("shard") if args.len() >= 9 => {
            shard(&args[2..]);
            0
        }
        Some("replay") if args.len() >= 3 => replay_outer(Path::new(&args[2])),
        Some("replay-inner") if args.len() >= 3 => replay_inner(Path::new(&args[2])),
        Some("emit-corpus") if args.len() >= 5 => emit_corpus(&args[2], Path::new(&args[3]), args[4].parse().unwrap_or(100)),
        _ => {
            eprintln!("usage: fv run <Cxx> <quick|thorough> | fv replay <file>");
            2
        }
    };
    std::process::exit(code);
}

fn limits(profile: &str) {
    // Backstop limits for a worker: address space 12 GiB (not under AddressSanitizer, which
    // reserves terabytes of shadow address space); single requests above 1 GiB are refused by the
    // counting allocator.
    unsafe {
        if profile != "asan" {
            let lim = libc::rlimit {
                rlim_cur: 12 << 30,
                rlim_max: 12 << 30,
            };
            libc::setrlimit(libc::RLIMIT_AS, &lim);
        }
        let core = libc::rlimit {
            rlim_cur: 0,
            rlim_max: 0,
        };
        libc::setrlimit(libc::RLIMIT_CORE, &core);
    }
    flussab_verif::alloc::set_refuse_above(1 << 30);
    // Keep medium-sized buffers on the heap instead of mmap/munmap per case (page-fault churn).
    unsafe {
        libc::mallopt(libc::M_MMAP_THRESHOLD, 256 << 20);
        libc::mallopt(libc::M_TRIM_THRESHOLD, 512 << 20);
    }
}

fn shard(a: &[String]) {
    let prop = props::find(&a[0]).expect("unknown property");
    let tier = Tier::parse(&a[1]).expect("tier");
    let seed: u64 = a[2].parse().expect("seed");
    let shard: u32 = a[3].parse().expect("shard");
    let start_unit: u32 = a[4].parse().expect("start unit");
    let out_dir = PathBuf::from(&a[5]);
    let profile = &a[6];
    limits(profile);
    engine::record_panic_locations();
    let ctx = Ctx::new(prop.id, tier, seed, shard, profile, start_unit, out_dir);
    // Regression corpus: once per build profile (shards are assigned to profiles round robin).
    if (shard as usize) < prop.profiles.len() && start_unit == 0 {
        replay_corpus(&prop, &ctx);
    }
    (prop.run)(&ctx);
    ctx.finish();
}

fn replay_corpus(prop: &PropDef, ctx: &Ctx) {
    let dir = engine::verif_dir().join("corpus").join(prop.id);
    let mut files: Vec<PathBuf> = match fs::read_dir(&dir) {
        Ok(rd) => rd
            .filter_map(|e| e.ok().map(|e| e.path()))
            .filter(|p| p.extension().map(|e| e == "json").unwrap_or(false))
            .collect(),
        Err(_) => return,
    };
    files.sort();
    for f in files {
        let rf = match engine::read_replay(&f) {
            Ok(rf) => rf,
            Err(e) => {
                ctx.generator_defect(format!("corpus file unreadable: {e}"));
                continue;
            }
        };
        ctx.corpus_case(&rf, &f, prop.replay);
    }
}

fn parse_bins() -> BTreeMap<String, PathBuf> {
    let mut m = BTreeMap::new();
    if let Ok(s) = std::env::var("FV_BINS") {
        for part in s.split(',') {
            if let Some((k, v)) = part.split_once('=') {
                m.insert(k.to_string(), PathBuf::from(v));
            }
        }
    }
    if m.is_empty() {
        m.insert(
            "checked".to_string(),
            std::env::current_exe().expect("current exe"),
        );
    }
    m
}

struct ShardOutcome {
    results: Vec<ShardResult>,
    hashes: Vec<u64>,
    violations: Vec<ViolationRec>,
    inconclusive: Vec<String>,
    known_hits: BTreeMap<String, u64>,
}

fn signal_name(sig: i32) -> &'static str {
    match sig {
        libc::SIGABRT => "SIGABRT",
        libc::SIGSEGV => "SIGSEGV",
        libc::SIGBUS => "SIGBUS",
        libc::SIGILL => "SIGILL",
        libc::SIGFPE => "SIGFPE",
        libc::SIGKILL => "SIGKILL",
        libc::SIGVTALRM => "SIGVTALRM",
        libc::SIGXCPU => "SIGXCPU",
        _ => "signal",
    }
}

fn normalise_digits(s: &str) -> String {
    let mut out = String::new();
    let mut in_digits = false;
    for ch in s.chars() {
        if ch.is_ascii_digit() {
            if !in_digits {
                out.push('N');
            }
            in_digits = true;
        } else {
            in_digits = false;
            out.push(ch);
        }
    }
    out
}

fn run_shard(
    prop: &PropDef,
    tier: Tier,
    seed: u64,
    shard: u32,
    bin: &Path,
    profile: &str,
    out_dir: &Path,
) -> ShardOutcome {
    let mut outcome = ShardOutcome {
        results: vec![],
        hashes: vec![],
        violations: vec![],
        inconclusive: vec![],
        known_hits: BTreeMap::new(),
    };
    let known = engine::load_known();
    let mut start_unit = 0u32;
    let mut restarts = 0;
    loop {
        let stderr_path = out_dir.join(format!("shard-{shard}.stderr"));
        let stderr_file = fs::File::create(&stderr_path).expect("stderr file");
        let _ = fs::remove_file(out_dir.join(format!("shard-{shard}.json")));
        let _ = fs::remove_file(out_dir.join(format!("shard-{shard}.hashes")));
        let status = Command::new(bin)
            .arg("shard")
            .arg(prop.id)
            .arg(tier.name())
            .arg(seed.to_string())
            .arg(shard.to_string())
            .arg(start_unit.to_string())
            .arg(out_dir)
            .arg(profile)
            .env("RUST_BACKTRACE", "0")
            .stdout(Stdio::null())
            .stderr(Stdio::from(stderr_file))
            .status();
        let status = match status {
            Ok(s) => s,
            Err(e) => {
                outcome
                    .inconclusive
                    .push(format!("shard {shard}: cannot spawn worker: {e}"));
                return outcome;
            }
        };
        if status.success() {
            if let Ok(s) = fs::read_to_string(out_dir.join(format!("shard-{shard}.json"))) {
                if let Ok(r) = serde_json::from_str::<ShardResult>(&s) {
                    outcome.violations.extend(r.violations.iter().cloned());
                    for (k, v) in &r.known_hits {
                        *outcome.known_hits.entry(k.clone()).or_insert(0) += v;
                    }
                    outcome.results.push(r);
                }
            } else {
                outcome
                    .inconclusive
                    .push(format!("shard {shard}: worker wrote no result"));
            }
            if let Ok(b) = fs::read(out_dir.join(format!("shard-{shard}.hashes"))) {
                for c in b.chunks_exact(8) {
                    outcome.hashes.push(u64::from_le_bytes(c.try_into().unwrap()));
                }
            }
            return outcome;
        }
        // The worker died. Find out on which case.
        let stderr_tail: String = fs::read_to_string(&stderr_path)
            .unwrap_or_default()
            .lines()
            .rev()
            .take(4)
            .collect::<Vec<_>>()
            .into_iter()
            .rev()
            .collect::<Vec<_>>()
            .join(" | ");
        let how = match status.signal() {
            Some(sig) => signal_name(sig).to_string(),
            None => format!("exit code {:?}", status.code()),
        };
        let cur = fs::read_to_string(out_dir.join(format!("shard-{shard}.cur"))).unwrap_or_default();
        let cur: Option<Value> = cur.lines().next().and_then(|l| serde_json::from_str(l).ok());
        let Some(cur) = cur else {
            outcome.inconclusive.push(format!(
                "shard {shard} ({profile}): worker died ({how}) before any case: {stderr_tail}"
            ));
            return outcome;
        };
        let unit = cur["unit"].as_u64().unwrap_or(0) as u32;
        let oracle = cur["oracle"].as_str().unwrap_or("?").to_string();
        let kind = if status.signal() == Some(libc::SIGVTALRM) {
            "hang".to_string()
        } else {
            how.clone()
        };
        // Signature: how it died plus the most telling line of its stderr.
        let stderr_all = fs::read_to_string(&stderr_path).unwrap_or_default();
        let telling = stderr_all
            .lines()
            .find(|l| {
                ["memory allocation of", "stack overflow", "AddressSanitizer", "panicked at", "capacity overflow"]
                    .iter()
                    .any(|p| l.contains(p))
            })
            .or_else(|| stderr_all.lines().last())
            .unwrap_or("");
        let sig = format!("{}:{}:died:{}:{}", prop.id, oracle, kind, normalise_digits(telling.trim()));
        let detail = format!(
            "worker ({profile} build) died with {how} while executing this case; stderr: {stderr_tail}"
        );
        let rf = ReplayFile {
            property: prop.id.to_string(),
            oracle: oracle.clone(),
            sig: sig.clone(),
            detail: detail.clone(),
            case: cur["case"].clone(),
        };
        let text = serde_json::to_string_pretty(&rf).unwrap();
        let dir = engine::replay_dir();
        let _ = fs::create_dir_all(&dir);
        let path = dir.join(format!(
            "{}-{}-died-{:016x}.json",
            prop.id,
            oracle,
            engine::hash64(&text)
        ));
        let _ = fs::write(&path, &text);
        // Confirm by a solo re-run (a hang must exceed the CPU limit twice; an abort must recur).
        let solo = Command::new(bin)
            .arg("replay-inner")
            .arg(&path)
            .stdout(Stdio::null())
            .stderr(Stdio::null())
            .status();
        let confirmed = matches!(&solo, Ok(s) if s.signal().is_some() || s.code() == Some(1));
        if confirmed {
            minimise_died(bin, &path);
        }
        if !confirmed {
            outcome.inconclusive.push(format!(
                "shard {shard} ({profile}): worker died ({how}) but the case passes when re-run alone: {}",
                path.display()
            ));
            let _ = fs::remove_file(&path);
        } else if known
            .findings
            .iter()
            .any(|k| k.status == "open" && k.property == prop.id && k.signature == sig)
        {
            *outcome.known_hits.entry(sig.clone()).or_insert(0) += 1;
            let _ = fs::remove_file(&path);
        } else if prop.abort_is_violation || crash_signal(status.signal(), &stderr_all) {
            // A reproducible crash of the worker (confirmed by the solo re-run) is a violation of
            // every property: each of them promises a value. Hangs and refused allocations are
            // violations only where the property is about termination / resources.
            outcome.violations.push(ViolationRec {
                oracle,
                sig,
                detail,
                replay: path.to_string_lossy().into_owned(),
            });
        } else {
            outcome.inconclusive.push(format!(
                "shard {shard} ({profile}): worker died ({how}); case kept at {}: {stderr_tail}",
                path.display()
            ));
        }
        restarts += 1;
        if restarts > 6 {
            outcome
                .inconclusive
                .push(format!("shard {shard}: too many worker restarts"));
            return outcome;
        }
        start_unit = unit + 1;
    }
}

/// Did the code under test crash (as opposed to the CPU watchdog or the allocation limit of the
/// harness stopping the worker)? Stack overflows and sanitizer reports arrive as SIGABRT.
fn crash_signal(sig: Option<i32>, stderr: &str) -> bool {
    match sig {
        Some(libc::SIGSEGV) | Some(libc::SIGBUS) | Some(libc::SIGILL) | Some(libc::SIGFPE) => true,
        Some(libc::SIGABRT) => !stderr.contains("memory allocation of"),
        _ => false,
    }
}

fn parent(prop_id: &str, tier: &str) -> i32 {
    let Some(prop) = props::find(prop_id) else {
        eprintln!("unknown property {prop_id}");
        return 2;
    };
    let Some(tier) = Tier::parse(tier) else {
        eprintln!("unknown tier {tier}");
        return 2;
    };
    let seed: u64 = std::env::var("VERIF_SEED")
        .ok()
        .and_then(|s| s.trim().parse::<i64>().ok())
        .map(|v| v as u64)
        .unwrap_or(engine::DEFAULT_SEED);
    let t0 = Instant::now();
    let bins = parse_bins();
    let mut profiles: Vec<&str> = prop
        .profiles
        .iter()
        .copied()
        .filter(|p| bins.contains_key(*p))
        .collect();
    let missing: Vec<&str> = prop
        .profiles
        .iter()
        .copied()
        .filter(|p| !bins.contains_key(*p))
        .collect();
    if profiles.is_empty() {
        profiles.push(bins.keys().next().map(|s| s.as_str()).unwrap());
    }
    let out_dir = std::env::var_os("FV_RUN_DIR")
        .map(PathBuf::from)
        .unwrap_or_else(|| engine::verif_dir().join(".build").join("run"))
        .join(format!("{}-{}", prop.id, tier.name()));
    let _ = fs::remove_dir_all(&out_dir);
    fs::create_dir_all(&out_dir).expect("create run dir");

    let mut handles = vec![];
    let mut extra_notes: Vec<String> = vec![];
    for s in 0..NSHARDS {
        let profile = profiles[(s as usize) % profiles.len()].to_string();
        let bin = bins[&profile].clone();
        let out_dir = out_dir.clone();
        let prop = props::find(prop_id).unwrap();
        handles.push(std::thread::spawn(move || {
            run_shard(&prop, tier, seed, s, &bin, &profile, &out_dir)
        }));
    }
    if props::has_unopt_shard(prop_id) {
        if let Some(bin) = bins.get("unopt").cloned() {
            let out_dir = out_dir.clone();
            let prop = props::find(prop_id).unwrap();
            handles.push(std::thread::spawn(move || {
                run_shard(&prop, tier, seed, NSHARDS, &bin, "unopt", &out_dir)
            }));
        } else {
            extra_notes.push("unoptimised build not available: scale oracles ran in the optimised profiles only".to_string());
        }
    }
    let mut results = vec![];
    let mut hashes: HashSet<u64> = HashSet::new();
    let mut violations = vec![];
    let mut inconclusive = vec![];
    let mut known_hits: BTreeMap<String, u64> = BTreeMap::new();
    for h in handles {
        let o = h.join().expect("shard thread");
        results.extend(o.results);
        hashes.extend(o.hashes);
        violations.extend(o.violations);
        inconclusive.extend(o.inconclusive);
        for (k, v) in o.known_hits {
            *known_hits.entry(k).or_insert(0) += v;
        }
    }

    // Merge.
    let mut evals = 0u64;
    let mut nontrivial_cases = 0u64;
    let mut counters: BTreeMap<String, u64> = BTreeMap::new();
    let mut samples: Vec<Value> = vec![];
    let mut notes: Vec<String> = extra_notes;
    let mut exhaustive_parts: Vec<String> = vec![];
    let mut per_profile: BTreeMap<String, u64> = BTreeMap::new();
    let mut gen_defects: Vec<String> = vec![];
    let mut distinct_enum = 0u64;
    let mut saturated = false;
    for r in &results {
        distinct_enum += r.distinct_by_construction;
        saturated |= r.distinct_saturated;
        evals += r.evals;
        nontrivial_cases += r.nontrivial_cases;
        *per_profile.entry(r.profile.clone()).or_insert(0) += r.evals;
        for (k, v) in &r.counters {
            *counters.entry(k.clone()).or_insert(0) += v;
        }
        for s in &r.samples {
            if samples.len() < 10 {
                samples.push(s.clone());
            }
        }
        notes.extend(r.notes.iter().cloned());
        exhaustive_parts.extend(r.exhaustive_parts.iter().cloned());
        gen_defects.extend(r.generator_defects.iter().cloned());
    }
    for c in props::required_classes(prop.id) {
        if counters.get(&c).copied().unwrap_or(0) == 0 && inconclusive.is_empty() && violations.is_empty() {
            gen_defects.push(format!("generator never produced required class {c}"));
        }
    }
    notes.sort();
    notes.dedup();
    if !missing.is_empty() {
        notes.push(format!("build profiles not available in this run: {missing:?}"));
    }
    // Deduplicate violations by signature for printing (keep all in the evidence count).
    let mut seen = HashSet::new();
    let mut printed = vec![];
    for v in &violations {
        if seen.insert((v.oracle.clone(), v.sig.clone())) {
            printed.push(v.clone());
        }
    }

    let known = engine::load_known();
    let open: Vec<_> = known
        .findings
        .iter()
        .filter(|k| k.status == "open" && k.property == prop.id)
        .collect();

    let wall = t0.elapsed().as_secs_f64();
    let all_complete = inconclusive.is_empty() && gen_defects.is_empty();
    let mut coverage = json!({
        "evaluations": evals,
        "distinct_nontrivial": hashes.len() as u64 + distinct_enum,
        "distinct_nontrivial_enumerated": distinct_enum,
        "nontrivial_cases_counted_with_duplicates": nontrivial_cases,
        "rule": prop.rule,
        "samples": samples,
        "classes": counters,
        "evaluations_per_build_profile": per_profile,
        "shards": NSHARDS,
        "known_finding_hits": known_hits,
        "notes": notes,
    });
    if !exhaustive_parts.is_empty() {
        coverage["exhaustive_parts"] = json!(exhaustive_parts);
    }
    if saturated {
        coverage["distinct_nontrivial_is_lower_bound"] = json!(format!(
            "at least one shard reached the cap of {} hashed cases; further non-trivial cases were executed and counted in nontrivial_cases_counted_with_duplicates but not in distinct_nontrivial",
            engine::MAX_HASHES_PER_SHARD
        ));
    }
    if (prop.exhaustive)(tier) && all_complete && violations.is_empty() {
        coverage["exhaustive"] = json!(true);
    }
    if !inconclusive.is_empty() {
        coverage["inconclusive"] = json!(inconclusive);
    }
    if !gen_defects.is_empty() {
        coverage["generator_defects"] = json!(gen_defects);
    }
    let evidence = json!({
        "property_id": prop.id,
        "tier": tier.name(),
        "seed": seed as i64,
        "level": prop.level,
        "coverage": coverage,
        "assumptions": prop.assumptions,
        "wall_s": wall,
        "violations": printed.len(),
    });
    let ev_dir = engine::evidence_dir();
    let _ = fs::create_dir_all(&ev_dir);
    let ev_path = ev_dir.join(format!("{}.json", prop.id));
    fs::write(&ev_path, serde_json::to_string_pretty(&evidence).unwrap()).expect("write evidence");

    println!(
        "{} {}: {} evaluations, {} distinct non-trivial, {:.1}s, seed {}",
        prop.id,
        tier.name(),
        evals,
        hashes.len() as u64 + distinct_enum,
        wall,
        seed
    );
    for k in &open {
        let hits = known_hits.get(&k.signature).copied().unwrap_or(0);
        println!(
            "KNOWN-FINDING: property={} {} (signature {}, hit {} times in this run)",
            prop.id, k.what, k.signature, hits
        );
    }
    for v in &printed {
        println!("VIOLATION property={} replay={}", prop.id, v.replay);
        println!("  oracle={} sig={}", v.oracle, v.sig);
        println!("  {}", v.detail);
    }
    if !printed.is_empty() {
        return 1;
    }
    if !inconclusive.is_empty() || !gen_defects.is_empty() {
        for m in inconclusive.iter().chain(gen_defects.iter()) {
            println!("INCONCLUSIVE property={} {}", prop.id, m);
        }
        return 2;
    }
    if evals == 0 || (hashes.len() as u64 + distinct_enum) < 2 {
        println!(
            "INCONCLUSIVE property={} too few cases were executed",
            prop.id
        );
        return 2;
    }
    0
}

fn replay_inner(path: &Path) -> i32 {
    let rf = match engine::read_replay(path) {
        Ok(rf) => rf,
        Err(e) => {
            eprintln!("{e}");
            return 2;
        }
    };
    let Some(prop) = props::find(&rf.property) else {
        eprintln!("unknown property {}", rf.property);
        return 2;
    };
    let asan = std::env::current_exe()
        .map(|p| p.to_string_lossy().contains("-asan"))
        .unwrap_or(false);
    limits(if asan { "asan" } else { "" });
    engine::record_panic_locations();
    engine::arm_cpu_watchdog(engine::CASE_CPU_SECONDS);
    match (prop.replay)(&rf.oracle, &rf.case) {
        None => {
            eprintln!("unknown oracle {} for {}", rf.oracle, rf.property);
            2
        }
        Some(Ok(())) => {
            println!("PASS property={} replay={}", rf.property, path.display());
            0
        }
        Some(Err(f)) => {
            println!("VIOLATION property={} replay={}", rf.property, path.display());
            println!("  oracle={} sig={}", rf.oracle, f.sig);
            println!("  {}", f.detail);
            1
        }
    }
}

fn replay_outer(path: &Path) -> i32 {
    let exe = std::env::current_exe().expect("current exe");
    let status = Command::new(exe).arg("replay-inner").arg(path).status();
    match status {
        Ok(s) => {
            if let Some(code) = s.code() {
                code
            } else {
                let prop = engine::read_replay(path)
                    .map(|r| r.property)
                    .unwrap_or_else(|_| "?".into());
                println!("VIOLATION property={} replay={}", prop, path.display());
                println!(
                    "  the replay process died with {}",
                    signal_name(s.signal().unwrap_or(0))
                );
                1
            }
        }
        Err(e) => {
            eprintln!("cannot spawn: {e}");
            2
        }
    }
}

/// Writes a seed corpus for a fuzz target: encoded generated cases for `parse` (plus the
/// repository's test fixtures), pseudo-random operation scripts for the two ops targets.
fn emit_corpus(target: &str, dir: &Path, count: usize) -> i32 {
    use flussab_verif::fuzzdec;
    use flussab_verif::inputs::{input_strategy, repo_seeds, Input};
    use flussab_verif::source::{feed_strategy, Feed};
    use proptest::strategy::{Strategy, ValueTree};
    use proptest::test_runner::{Config, RngSeed, TestRunner};
    let _ = fs::create_dir_all(dir);
    let mut runner = TestRunner::new(Config {
        rng_seed: RngSeed::Fixed(engine::DEFAULT_SEED),
        failure_persistence: None,
        ..Config::default()
    });
    let mut n = 0;
    let mut put = |bytes: &[u8]| {
        let _ = fs::write(dir.join(format!("seed-{:05}", n)), bytes);
        n += 1;
    };
    match target {
        "parse" => {
            for p in flussab_verif::drivers::ALL_PARSERS {
                for (i, s) in repo_seeds(p).iter().enumerate() {
                    let input = Input {
                        spec: flussab_verif::drivers::Spec {
                            parser: p,
                            lit: (i % 5) as u8,
                            flag: false,
                        },
                        bytes: s.to_vec(),
                        class: "repo-seed".into(),
                    };
                    put(&fuzzdec::encode_parse(&input, &Feed::one_shot()));
                }
            }
            let strat = (input_strategy(6, true), feed_strategy());
            for _ in 0..count {
                if let Ok(t) = strat.new_tree(&mut runner) {
                    let (input, feed) = t.current();
                    if input.bytes.len() < 600 {
                        put(&fuzzdec::encode_parse(&input, &feed));
                    }
                }
            }
        }
        _ => {
            let mut x: u64 = 0x1234_5678_9abc_def1;
            for i in 0..count {
                let len = 16 + (i * 7) % 240;
                let mut b = Vec::with_capacity(len);
                for _ in 0..len {
                    x ^= x << 13;
                    x ^= x >> 7;
                    x ^= x << 17;
                    b.push((x >> 24) as u8);
                }
                put(&b);
            }
        }
    }
    println!("{n} corpus files written to {}", dir.display());
    0
}

/// Delta-debugging of a crash case: shrinks the byte string of the case (input bytes / source
/// data) while a solo replay in a child process still dies. proptest cannot shrink these because
/// the failure kills the process.
fn minimise_died(bin: &Path, path: &Path) {
    let Ok(rf) = engine::read_replay(path) else { return };
    let pointers = ["/input/bytes", "/data", "/bytes"];
    let Some(ptr) = pointers.iter().find(|p| rf.case.pointer(p).and_then(|v| v.as_str()).is_some()) else {
        return;
    };
    let hex = rf.case.pointer(ptr).unwrap().as_str().unwrap().to_string();
    let Some(mut bytes) = engine::hexbytes::from_hex(&hex) else { return };
    let tmp = path.with_extension("min.json");
    let dies = |candidate: &[u8]| -> bool {
        let mut rf2 = rf.clone();
        *rf2.case.pointer_mut(ptr).unwrap() = Value::String(engine::hexbytes::to_hex(candidate));
        if fs::write(&tmp, serde_json::to_string(&rf2).unwrap()).is_err() {
            return false;
        }
        matches!(
            Command::new(bin).arg("replay-inner").arg(&tmp).stdout(Stdio::null()).stderr(Stdio::null()).status(),
            Ok(s) if s.signal().is_some()
        )
    };
    let mut tries = 0;
    let mut chunk = (bytes.len() / 2).max(1);
    while chunk >= 1 && tries < 400 && !bytes.is_empty() {
        let mut i = 0;
        let mut removed_any = false;
        while i < bytes.len() && tries < 400 {
            let end = (i + chunk).min(bytes.len());
            let mut cand = bytes[..i].to_vec();
            cand.extend_from_slice(&bytes[end..]);
            tries += 1;
            if dies(&cand) {
                bytes = cand;
                removed_any = true;
            } else {
                i = end;
            }
        }
        if !removed_any {
            if chunk == 1 {
                break;
            }
            chunk /= 2;
        }
    }
    let _ = fs::remove_file(&tmp);
    let mut rf2 = rf.clone();
    *rf2.case.pointer_mut(ptr).unwrap() = Value::String(engine::hexbytes::to_hex(&bytes));
    rf2.detail = format!("{} (input minimised by delta debugging, {} replays)", rf2.detail, tries);
    let _ = fs::write(path, serde_json::to_string_pretty(&rf2).unwrap());
}

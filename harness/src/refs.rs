//! Independent reference readers (C06): a line splitter, a whitespace tokenizer and wide decimal
//! arithmetic, written from the format descriptions. They return the items a parser may report for
//! an accepted input, or a reason why the input must be rejected (a number that does not fit, a
//! declared limit that is violated), or "undecided" when the text is outside what this simple
//! reader understands.
use crate::drivers::{AigOwned, Item, ParserId, Spec};

#[derive(Debug, Clone, PartialEq, Eq)]
pub enum Reading {
    /// The reference cannot judge this text (malformed in a way that has nothing to do with
    /// numbers and limits).
    Undecided(String),
    /// Accepting this text would violate C06.
    MustReject(String),
    /// If the parser accepts, it must report exactly these items.
    Accept(Vec<Item>),
}

/// Decimal text (optional '-') to i128; None when it has more than 38 digits.
fn dec(s: &str) -> Option<Option<i128>> {
    let (neg, d) = match s.strip_prefix('-') {
        Some(r) => (true, r),
        None => (false, s),
    };
    if d.is_empty() || !d.bytes().all(|b| b.is_ascii_digit()) {
        return None;
    }
    let t = d.trim_start_matches('0');
    if t.len() > 38 {
        return Some(None);
    }
    let v: i128 = if t.is_empty() { 0 } else { t.parse().ok()? };
    Some(Some(if neg { -v } else { v }))
}

fn udec(s: &str) -> Option<Option<i128>> {
    if s.starts_with('-') {
        return None;
    }
    dec(s)
}

fn lines_of(b: &[u8]) -> Vec<&[u8]> {
    let mut v: Vec<&[u8]> = b.split(|&c| c == b'\n').collect();
    if v.last().map_or(false, |l| l.is_empty()) {
        v.pop();
    }
    v
}

// ---------------------------------------------------------------------------------------------
// DIMACS

pub fn read_dimacs(spec: &Spec, b: &[u8]) -> Reading {
    let max = spec.max_dimacs();
    let kind = spec.parser;
    let mut header: Option<(i128, i128, i128)> = None;
    let mut items = vec![];
    let mut clauses: Vec<(u64, Vec<i64>)> = vec![];
    let mut cur: Option<(Option<u64>, Vec<i64>)> = None; // (weight/group once read, literals)
    let mut seen_body = false;
    let mut must_reject: Option<String> = None;
    for raw in lines_of(b) {
        let mut line = raw;
        if line.last() == Some(&b'\r') {
            line = &line[..line.len() - 1];
        }
        if line.contains(&b'\r') {
            return Reading::Undecided("carriage return inside a line".into());
        }
        let Ok(text) = std::str::from_utf8(line) else {
            // non-UTF-8 is fine inside comments only
            let t: Vec<u8> = line.iter().copied().skip_while(|c| *c == b' ' || *c == b'\t').collect();
            if t.first() == Some(&b'c') {
                continue;
            }
            return Reading::Undecided("non UTF-8 outside a comment".into());
        };
        let trimmed = text.trim_start_matches([' ', '\t']);
        if trimmed.starts_with('c') {
            continue;
        }
        let words: Vec<&str> = trimmed.split([' ', '\t']).filter(|w| !w.is_empty()).collect();
        if words.is_empty() {
            continue;
        }
        if words[0] == "p" {
            if header.is_some() || seen_body {
                return Reading::Undecided("header not at the start".into());
            }
            let want = match kind {
                ParserId::Cnf => ("cnf", 4),
                ParserId::Wcnf => ("wcnf", 5),
                _ => ("gcnf", 5),
            };
            if words.len() != want.1 || words[1] != want.0 {
                return Reading::Undecided("malformed header".into());
            }
            let mut f = [0i128; 3];
            for (i, w) in words[2..].iter().enumerate() {
                match udec(w) {
                    Some(Some(v)) => f[i] = v,
                    Some(None) => {
                        must_reject = must_reject.or(Some(format!("header field {w} does not fit any supported integer")));
                        f[i] = i128::MAX;
                    }
                    None => return Reading::Undecided("non-numeric header field".into()),
                }
            }
            if f[0] > max {
                must_reject = must_reject.or(Some(format!(
                    "variable count {} exceeds the literal type's maximum {max}",
                    f[0]
                )));
            }
            if f[1] > u64::MAX as i128 || f[2] > u64::MAX as i128 {
                must_reject = must_reject.or(Some("header count exceeds 64 bits".into()));
            }
            header = Some((f[0], f[1], f[2]));
            continue;
        }
        seen_body = true;
        let mut ended_on_this_line = false;
        for w in words {
            if ended_on_this_line {
                return Reading::Undecided("text after the terminating zero".into());
            }
            let c = cur.get_or_insert((None, vec![]));
            if kind != ParserId::Cnf && c.0.is_none() {
                // weight or {group}
                let inner = if kind == ParserId::Gcnf {
                    match w.strip_prefix('{').and_then(|r| r.strip_suffix('}')) {
                        Some(i) => i,
                        None => return Reading::Undecided("malformed group".into()),
                    }
                } else {
                    w
                };
                match udec(inner) {
                    Some(Some(v)) if v <= u64::MAX as i128 => c.0 = Some(v as u64),
                    Some(_) => {
                        must_reject = must_reject.or(Some(format!("weight/group {inner} exceeds 64 bits")));
                        c.0 = Some(u64::MAX);
                    }
                    None => return Reading::Undecided("non-numeric weight/group".into()),
                }
                continue;
            }
            match dec(w) {
                Some(Some(0)) => {
                    let (x, lits) = cur.take().unwrap();
                    clauses.push((x.unwrap_or(0), lits));
                    ended_on_this_line = true;
                }
                Some(Some(v)) => {
                    if v.abs() > max {
                        must_reject =
                            must_reject.or(Some(format!("literal {v} exceeds the literal type's maximum {max}")));
                    }
                    c.1.push(v.clamp(i64::MIN as i128, i64::MAX as i128) as i64);
                }
                Some(None) => {
                    must_reject = must_reject.or(Some(format!("literal {w} exceeds every supported integer")));
                    c.1.push(i64::MAX);
                }
                // made of sign and digit characters only, yet not a decimal number ("-", "--1",
                // "1-2", "+1"): nothing else it could be, so no number may be returned for it
                None if w.bytes().all(|b| b == b'-' || b == b'+' || b.is_ascii_digit()) => {
                    must_reject = must_reject.or(Some(format!("{w:?} is not a number")));
                }
                None => return Reading::Undecided(format!("non-numeric word {w:?}")),
            }
        }
    }
    if cur.is_some() {
        return Reading::Undecided("unterminated clause".into());
    }
    // declared limits
    if let Some((v, n, g)) = header {
        if !spec.flag {
            if v != 0 {
                for (_, lits) in &clauses {
                    if let Some(l) = lits.iter().find(|l| (**l as i128).abs() > v) {
                        must_reject = must_reject.or(Some(format!("literal {l} exceeds the declared variable count {v}")));
                    }
                }
            }
            if n != 0 && clauses.len() as i128 != n {
                must_reject = must_reject.or(Some(format!("{} clauses but the header declares {n}", clauses.len())));
            }
            if kind == ParserId::Gcnf && g != 0 {
                if let Some((x, _)) = clauses.iter().find(|(x, _)| *x as i128 > g) {
                    must_reject = must_reject.or(Some(format!("group {x} exceeds the declared group count {g}")));
                }
            }
        }
        items.push(Item::Header(match kind {
            ParserId::Cnf => vec![v as u64, n as u64],
            _ => vec![v as u64, n as u64, g as u64],
        }));
    }
    if let Some(r) = must_reject {
        return Reading::MustReject(r);
    }
    for (x, lits) in clauses {
        items.push(Item::Clause {
            extra: if kind == ParserId::Cnf { None } else { Some(x) },
            lits,
        });
    }
    Reading::Accept(items)
}

// ---------------------------------------------------------------------------------------------
// Solver log

pub fn read_log(spec: &Spec, b: &[u8]) -> Reading {
    let max = spec.max_dimacs();
    let mut sat: Option<Option<bool>> = None;
    let mut assignment: Vec<i64> = vec![];
    let mut finished = false;
    let mut started = false;
    let mut must_reject = None;
    for raw in lines_of(b) {
        let mut line = raw;
        if line.last() == Some(&b'\r') {
            line = &line[..line.len() - 1];
        }
        if line.starts_with(b"c ") {
            continue;
        }
        if line.starts_with(b"v ") && !finished {
            started = true;
            let Ok(text) = std::str::from_utf8(&line[2..]) else {
                return Reading::Undecided("non UTF-8 value line".into());
            };
            let mut done = false;
            for w in text.split([' ', '\t']).filter(|w| !w.is_empty()) {
                if done {
                    return Reading::Undecided("text after the terminating zero".into());
                }
                match dec(w) {
                    Some(Some(0)) => {
                        finished = true;
                        done = true;
                    }
                    Some(Some(v)) => {
                        if v.abs() > max {
                            must_reject = must_reject.or(Some(format!("literal {v} exceeds the literal type's maximum {max}")));
                        }
                        assignment.push(v.clamp(i64::MIN as i128, i64::MAX as i128) as i64);
                    }
                    Some(None) => {
                        must_reject = must_reject.or(Some(format!("literal {w} exceeds every supported integer")));
                    }
                    None if w.bytes().all(|b| b == b'-' || b == b'+' || b.is_ascii_digit()) => {
                        must_reject = must_reject.or(Some(format!("{w:?} is not a number")));
                    }
                    None => return Reading::Undecided("non-numeric word in value line".into()),
                }
            }
            continue;
        }
        if line.starts_with(b"s ") && sat.is_none() {
            sat = Some(match &line[2..] {
                b"SATISFIABLE" => Some(true),
                b"UNSATISFIABLE" => Some(false),
                b"UNKNOWN" => None,
                _ => return Reading::Undecided("unknown solution line".into()),
            });
            continue;
        }
        if spec.flag {
            continue; // unknown lines are ignored
        }
        return Reading::Undecided("unknown line".into());
    }
    if started && !finished {
        return Reading::Undecided("assignment not terminated".into());
    }
    if let Some(r) = must_reject {
        return Reading::MustReject(r);
    }
    Reading::Accept(vec![Item::Log {
        sat: sat.flatten(),
        assignment,
    }])
}

// ---------------------------------------------------------------------------------------------
// AIGER

fn aiger_number(s: &[u8]) -> Option<Option<u128>> {
    let t = std::str::from_utf8(s).ok()?;
    if t.is_empty() || !t.bytes().all(|b| b.is_ascii_digit()) || (t.len() > 1 && t.starts_with('0')) {
        return None;
    }
    if t.len() > 38 {
        return Some(None);
    }
    Some(t.parse::<u128>().ok())
}

/// Reads an AIGER file (ASCII or binary) up to the end of the and-gate section; symbols and
/// comments carry no numbers with limits other than the symbol index, which is checked too.
pub fn read_aiger(spec: &Spec, b: &[u8]) -> Reading {
    let binary = spec.parser.is_binary_aiger();
    let max_code = spec.max_code();
    let mut must_reject: Option<String> = None;
    let mut pos = 0usize;
    let next_line = |pos: &mut usize| -> Option<&[u8]> {
        if *pos > b.len() {
            return None;
        }
        let rest = &b[*pos..];
        let e = rest.iter().position(|&c| c == b'\n')?;
        let l = &rest[..e];
        *pos += e + 1;
        Some(l)
    };
    let Some(h) = next_line(&mut pos) else {
        return Reading::Undecided("no header line".into());
    };
    let words: Vec<&[u8]> = h.split(|&c| c == b' ').collect();
    if words.len() < 6 || words.len() > 10 || words[0] != if binary { b"aig".as_slice() } else { b"aag" } {
        return Reading::Undecided("malformed header".into());
    }
    let mut f = [0u128; 9];
    for (i, w) in words[1..].iter().enumerate() {
        match aiger_number(w) {
            Some(Some(v)) => f[i] = v,
            Some(None) => {
                must_reject = must_reject.or(Some("header field exceeds every supported integer".into()));
                f[i] = u128::MAX >> 8;
            }
            None => return Reading::Undecided("non-numeric header field".into()),
        }
    }
    let (m, i, l, o, a, bb, c, j, ff) = (f[0], f[1], f[2], f[3], f[4], f[5], f[6], f[7], f[8]);
    if m > (max_code - 1) / 2 {
        must_reject = must_reject.or(Some(format!(
            "maximum variable index {m} exceeds the literal type's limit {}",
            (max_code - 1) / 2
        )));
    }
    if i + l + a > m {
        must_reject = must_reject.or(Some(format!("I + L + A = {} exceeds M = {m}", i + l + a)));
    }
    for v in [o, bb, c, j, ff] {
        if v > u64::MAX as u128 {
            must_reject = must_reject.or(Some("section count exceeds 64 bits".into()));
        }
    }
    if must_reject.is_some() {
        return Reading::MustReject(must_reject.unwrap());
    }
    // (binary files do not list their inputs)
    if (if binary { 0 } else { i }) + l + o + a + bb + c + j + ff > 100_000 {
        return Reading::Undecided("too many declared entries for the reference reader".into());
    }
    let max_lit = 2 * m + 1;
    let mut aig = AigOwned {
        max_var_index: m as u64,
        input_count: i as u64,
        ..AigOwned::default()
    };
    let lit = |w: &[u8], defining: bool, must_reject: &mut Option<String>| -> Result<u64, Reading> {
        match aiger_number(w) {
            Some(Some(v)) => {
                if v > max_lit {
                    *must_reject = must_reject.take().or(Some(format!("literal {v} exceeds 2M+1 = {max_lit}")));
                }
                if defining && (v == 0 || v % 2 == 1) {
                    *must_reject = must_reject.take().or(Some(format!("defined literal {v} is zero or odd")));
                }
                Ok(v.min(u64::MAX as u128) as u64)
            }
            Some(None) => {
                *must_reject = must_reject.take().or(Some("literal exceeds every supported integer".into()));
                Ok(u64::MAX)
            }
            None => Err(Reading::Undecided("non-numeric literal".into())),
        }
    };
    macro_rules! single {
        ($n:expr, $target:expr, $def:expr) => {
            for _ in 0..$n {
                let Some(line) = next_line(&mut pos) else {
                    return Reading::Undecided("missing section line".into());
                };
                match lit(line, $def, &mut must_reject) {
                    Ok(v) => $target.push(v),
                    Err(r) => return r,
                }
            }
        };
    }
    if !binary {
        single!(i, aig.inputs, true);
    }
    let mut code = 2 * (i + 1);
    for _ in 0..l {
        let Some(line) = next_line(&mut pos) else {
            return Reading::Undecided("missing latch line".into());
        };
        let w: Vec<&[u8]> = line.split(|&c| c == b' ').collect();
        let (state, rest) = if binary {
            (code.min(u64::MAX as u128) as u64, &w[..])
        } else {
            if w.len() < 2 {
                return Reading::Undecided("malformed latch line".into());
            }
            match lit(w[0], true, &mut must_reject) {
                Ok(v) => (v, &w[1..]),
                Err(r) => return r,
            }
        };
        if rest.is_empty() || rest.len() > 2 {
            return Reading::Undecided("malformed latch line".into());
        }
        let next = match lit(rest[0], false, &mut must_reject) {
            Ok(v) => v,
            Err(r) => return r,
        };
        let init = if rest.len() == 2 {
            match lit(rest[1], false, &mut must_reject) {
                Ok(0) => Some(false),
                Ok(1) => Some(true),
                Ok(v) if v == state => None,
                Ok(_) => return Reading::Undecided("latch initialisation is neither 0, 1 nor the latch itself".into()),
                Err(r) => return r,
            }
        } else {
            Some(false)
        };
        aig.latches.push((if binary { None } else { Some(state) }, next, init));
        code = code.wrapping_add(2);
    }
    single!(o, aig.outputs, false);
    single!(bb, aig.bad, false);
    single!(c, aig.constraints, false);
    let mut sizes = vec![];
    let mut big_sizes: Vec<u128> = vec![];
    for _ in 0..j {
        let Some(line) = next_line(&mut pos) else {
            return Reading::Undecided("missing justice size".into());
        };
        match aiger_number(line) {
            Some(Some(v)) => big_sizes.push(v),
            Some(None) => big_sizes.push(u128::MAX >> 8),
            None => return Reading::Undecided("non-numeric justice size".into()),
        }
    }
    // Every declared local fairness constraint needs a line of its own: declaring more of them
    // than the input has lines left violates "section sizes equal to the declared counts".
    let declared: u128 = big_sizes.iter().fold(0u128, |a, b| a.saturating_add(*b));
    let lines_left = b[pos.min(b.len())..].iter().filter(|&&c| c == b'\n').count() as u128;
    if declared > lines_left {
        return Reading::MustReject(format!(
            "the justice properties declare {declared} local fairness constraints but only {lines_left} lines follow"
        ));
    }
    for v in big_sizes {
        sizes.push(v as usize);
    }
    if declared > 100_000 {
        return Reading::Undecided("huge justice property".into());
    }
    for s in &sizes {
        let mut v = vec![];
        single!(*s, v, false);
        aig.justice.push(v);
    }
    single!(ff, aig.fairness, false);
    for _ in 0..a {
        if binary {
            let read_var = |pos: &mut usize| -> Option<Option<u128>> {
                let mut v: u128 = 0;
                let mut shift = 0u32;
                loop {
                    let byte = *b.get(*pos)?;
                    *pos += 1;
                    if shift < 120 {
                        v |= ((byte & 0x7f) as u128) << shift;
                    } else if byte & 0x7f != 0 {
                        return Some(None);
                    }
                    shift += 7;
                    if byte & 0x80 == 0 {
                        return Some(Some(v));
                    }
                    if shift > 700 {
                        return Some(None);
                    }
                }
            };
            let (Some(d0), Some(d1)) = (read_var(&mut pos), read_var(&mut pos)) else {
                return Reading::Undecided("truncated and-gate section".into());
            };
            let (Some(d0), Some(d1)) = (d0, d1) else {
                return Reading::MustReject("delta code exceeds every supported integer".into());
            };
            if d0 > code {
                return Reading::MustReject(format!("delta {d0} exceeds the gate's own code {code}"));
            }
            let in0 = code - d0;
            if d1 > in0 {
                return Reading::MustReject(format!("delta {d1} exceeds the first input {in0}"));
            }
            aig.ands.push((None, in0 as u64, (in0 - d1) as u64));
            code = code.wrapping_add(2);
        } else {
            let Some(line) = next_line(&mut pos) else {
                return Reading::Undecided("missing and-gate line".into());
            };
            let w: Vec<&[u8]> = line.split(|&c| c == b' ').collect();
            if w.len() != 3 {
                return Reading::Undecided("malformed and-gate line".into());
            }
            let out = match lit(w[0], true, &mut must_reject) {
                Ok(v) => v,
                Err(r) => return r,
            };
            let i0 = match lit(w[1], false, &mut must_reject) {
                Ok(v) => v,
                Err(r) => return r,
            };
            let i1 = match lit(w[2], false, &mut must_reject) {
                Ok(v) => v,
                Err(r) => return r,
            };
            aig.ands.push((Some(out), i0, i1));
        }
    }
    if let Some(r) = must_reject {
        return Reading::MustReject(r);
    }
    // Items up to the end of the and-gate section, in streaming order.
    let doc = crate::gen::AigDoc {
        binary,
        aig,
        header_fields: 9,
    };
    Reading::Accept(doc.expected_stream())
}

/// The number of leading stream items that `read_aiger` covers (everything before symbols).
pub fn aiger_prefix_len(items: &[Item]) -> usize {
    items
        .iter()
        .position(|i| matches!(i, Item::Symbol { .. } | Item::Comment(_)))
        .unwrap_or(items.len())
}

/// Symbol index limits: Some(reason) when a reported symbol violates its section's count.
pub fn symbol_limit_violation(items: &[Item]) -> Option<String> {
    let Some(Item::Header(h)) = items.first() else {
        return None;
    };
    for it in items {
        if let Item::Symbol { kind, index, .. } = it {
            let count = match kind {
                'i' => h[1],
                'l' => h[2],
                'o' => h[3],
                'b' => h[5],
                'c' => h[6],
                'j' => h[7],
                _ => h[8],
            };
            if *index >= count {
                return Some(format!("symbol {kind}{index} but that section has {count} entries"));
            }
        }
    }
    None
}

//! Counting global allocator.
//!
//! Every worker process is single threaded, so plain relaxed atomics give exact numbers. The
//! allocator tracks live bytes, a resettable peak and the largest single request. Requests above
//! `REFUSE_ABOVE` return null, which turns "reserve(declared count)" style bugs into a clean,
//! attributable abort of the worker (the parent then reports the case) instead of taking the
//! sandbox down.
use std::alloc::{GlobalAlloc, Layout, System};
use std::sync::atomic::{AtomicUsize, Ordering::Relaxed};

pub struct CountingAlloc;

static LIVE: AtomicUsize = AtomicUsize::new(0);
static PEAK: AtomicUsize = AtomicUsize::new(0);
static LARGEST: AtomicUsize = AtomicUsize::new(0);
static COUNT: AtomicUsize = AtomicUsize::new(0);
static REFUSE_ABOVE: AtomicUsize = AtomicUsize::new(usize::MAX);
static REFUSED: AtomicUsize = AtomicUsize::new(0);
/// While set, memory handed out without zeroing is filled with `POISON_BYTE` (so that a buffer
/// that is extended without being initialised shows recognisable garbage).
static POISON: std::sync::atomic::AtomicBool = std::sync::atomic::AtomicBool::new(false);
pub const POISON_BYTE: u8 = 0xA5;

pub fn set_poison(on: bool) {
    POISON.store(on, Relaxed);
}

#[inline]
fn on_alloc(size: usize) {
    let live = LIVE.fetch_add(size, Relaxed) + size;
    if live > PEAK.load(Relaxed) {
        PEAK.store(live, Relaxed);
    }
    if size > LARGEST.load(Relaxed) {
        LARGEST.store(size, Relaxed);
    }
    COUNT.fetch_add(1, Relaxed);
}

unsafe impl GlobalAlloc for CountingAlloc {
    unsafe fn alloc(&self, layout: Layout) -> *mut u8 {
        if layout.size() > REFUSE_ABOVE.load(Relaxed) {
            REFUSED.store(layout.size(), Relaxed);
            return std::ptr::null_mut();
        }
        let p = System.alloc(layout);
        if !p.is_null() {
            on_alloc(layout.size());
            if POISON.load(Relaxed) {
                std::ptr::write_bytes(p, POISON_BYTE, layout.size());
            }
        }
        p
    }
    unsafe fn alloc_zeroed(&self, layout: Layout) -> *mut u8 {
        if layout.size() > REFUSE_ABOVE.load(Relaxed) {
            REFUSED.store(layout.size(), Relaxed);
            return std::ptr::null_mut();
        }
        let p = System.alloc_zeroed(layout);
        if !p.is_null() {
            on_alloc(layout.size());
        }
        p
    }
    unsafe fn dealloc(&self, ptr: *mut u8, layout: Layout) {
        LIVE.fetch_sub(layout.size(), Relaxed);
        System.dealloc(ptr, layout)
    }
    unsafe fn realloc(&self, ptr: *mut u8, layout: Layout, new_size: usize) -> *mut u8 {
        if new_size > REFUSE_ABOVE.load(Relaxed) {
            REFUSED.store(new_size, Relaxed);
            return std::ptr::null_mut();
        }
        let p = System.realloc(ptr, layout, new_size);
        if !p.is_null() {
            // A realloc may need old + new at the same time; account for that in the peak, as a
            // real allocator would.
            on_alloc(new_size);
            LIVE.fetch_sub(layout.size(), Relaxed);
            if new_size > layout.size() && POISON.load(Relaxed) {
                std::ptr::write_bytes(p.add(layout.size()), POISON_BYTE, new_size - layout.size());
            }
        }
        p
    }
}

/// A measurement window: live bytes at the start, peak reset to the current live value.
pub struct Window {
    base: usize,
}

pub fn window() -> Window {
    let live = LIVE.load(Relaxed);
    PEAK.store(live, Relaxed);
    LARGEST.store(0, Relaxed);
    Window { base: live }
}

impl Window {
    /// Peak live heap above the level at the start of the window.
    pub fn peak(&self) -> usize {
        PEAK.load(Relaxed).saturating_sub(self.base)
    }
    /// Largest single request since the start of the window.
    pub fn largest(&self) -> usize {
        LARGEST.load(Relaxed)
    }
    /// Live heap now, above the level at the start of the window.
    pub fn live(&self) -> usize {
        LIVE.load(Relaxed).saturating_sub(self.base)
    }
}

/// Live heap bytes right now.
pub fn live_now() -> usize {
    LIVE.load(Relaxed)
}

pub fn set_refuse_above(limit: usize) {
    REFUSE_ABOVE.store(limit, Relaxed);
}

pub fn last_refused() -> usize {
    REFUSED.load(Relaxed)
}

pub fn alloc_count() -> usize {
    COUNT.load(Relaxed)
}

/// True when the counting allocator is actually installed (the library can also be linked into
/// binaries, e.g. fuzz targets, that use another allocator).
pub fn installed() -> bool {
    let before = COUNT.load(Relaxed);
    let v: Vec<u8> = Vec::with_capacity(64);
    std::hint::black_box(&v);
    COUNT.load(Relaxed) != before
}

//! Input generation shared by C01/C04/C05/C08: valid documents (reference renderer, layout
//! renderer, the crate's own writers), mutated documents, hostile documents, arbitrary bytes.
use std::borrow::Cow;

use flussab::DeferredWriter;
use flussab_aiger::aig::{Aig, AndGate, Latch, OrderedAig, OrderedAndGate, OrderedLatch, Symbol};
use flussab_aiger::Lit;
use proptest::prelude::*;
use serde::{Deserialize, Serialize};

use crate::drivers::{sym_target, AigOwned, ParserId, Spec};
use crate::gen::{choices_strategy, doc_strategy, spec_strategy, AigDoc, Doc, Rendered, Role};

// ---------------------------------------------------------------------------------------------
// Rendering through the crate's writers

pub fn to_aig<L: Lit>(a: &AigOwned) -> Aig<L> {
    let c = |v: u64| L::from_code(v as usize);
    Aig {
        max_var_index: a.max_var_index as usize,
        inputs: a.inputs.iter().map(|&v| c(v)).collect(),
        latches: a
            .latches
            .iter()
            .map(|&(s, n, i)| Latch {
                state: c(s.unwrap_or(0)),
                next_state: c(n),
                initialization: i,
            })
            .collect(),
        outputs: a.outputs.iter().map(|&v| c(v)).collect(),
        bad_state_properties: a.bad.iter().map(|&v| c(v)).collect(),
        invariant_constraints: a.constraints.iter().map(|&v| c(v)).collect(),
        justice_properties: a
            .justice
            .iter()
            .map(|j| j.iter().map(|&v| c(v)).collect())
            .collect(),
        fairness_constraints: a.fairness.iter().map(|&v| c(v)).collect(),
        and_gates: a
            .ands
            .iter()
            .map(|&(o, i0, i1)| AndGate {
                inputs: [c(i0), c(i1)],
                output: c(o.unwrap_or(0)),
            })
            .collect(),
        symbols: a
            .symbols
            .iter()
            .map(|(k, i, n)| Symbol {
                target: sym_target(*k, *i),
                name: Cow::Owned(n.clone()),
            })
            .collect(),
        comment: a.comment.clone(),
    }
}

pub fn to_ordered<L: Lit>(a: &AigOwned) -> OrderedAig<L> {
    let c = |v: u64| L::from_code(v as usize);
    OrderedAig {
        max_var_index: a.max_var_index as usize,
        input_count: a.input_count as usize,
        latches: a
            .latches
            .iter()
            .map(|&(_, n, i)| OrderedLatch {
                next_state: c(n),
                initialization: i,
            })
            .collect(),
        outputs: a.outputs.iter().map(|&v| c(v)).collect(),
        bad_state_properties: a.bad.iter().map(|&v| c(v)).collect(),
        invariant_constraints: a.constraints.iter().map(|&v| c(v)).collect(),
        justice_properties: a
            .justice
            .iter()
            .map(|j| j.iter().map(|&v| c(v)).collect())
            .collect(),
        fairness_constraints: a.fairness.iter().map(|&v| c(v)).collect(),
        and_gates: a
            .ands
            .iter()
            .map(|&(_, i0, i1)| OrderedAndGate { inputs: [c(i0), c(i1)] })
            .collect(),
        symbols: a
            .symbols
            .iter()
            .map(|(k, i, n)| Symbol {
                target: sym_target(*k, *i),
                name: Cow::Owned(n.clone()),
            })
            .collect(),
        comment: a.comment.clone(),
    }
}

#[derive(Clone, Copy, Debug, PartialEq, Eq, Hash, Serialize, Deserialize)]
pub enum AigWriter {
    /// `ascii::Writer::write_aig`
    AsciiAig,
    /// `ascii::Writer::write_ordered_aig`
    AsciiOrdered,
    /// `binary::Writer::write_ordered_aig`
    BinaryOrdered,
}

thread_local! {
    static WRITE_PAD: std::cell::Cell<usize> = const { std::cell::Cell::new(0) };
}

/// Two documents written one after the other through the same writer object.
pub fn write_aiger_pair_with_crate(a: &AigOwned, b: &AigOwned, lit: u8, which: AigWriter) -> Vec<u8> {
    let mut out = Vec::new();
    {
        macro_rules! body {
            ($t:ty) => {{
                match which {
                    AigWriter::AsciiAig => {
                        let mut w = DeferredWriter::from_write(&mut out);
                        let mut aw = flussab_aiger::ascii::Writer::<$t>::new(&mut w);
                        aw.write_aig(&to_aig::<$t>(a));
                        aw.write_aig(&to_aig::<$t>(b));
                        let _ = std::io::Write::flush(&mut w);
                    }
                    AigWriter::AsciiOrdered => {
                        let mut w = DeferredWriter::from_write(&mut out);
                        let mut aw = flussab_aiger::ascii::Writer::<$t>::new(&mut w);
                        aw.write_ordered_aig(&to_ordered::<$t>(a));
                        aw.write_ordered_aig(&to_ordered::<$t>(b));
                        let _ = std::io::Write::flush(&mut w);
                    }
                    AigWriter::BinaryOrdered => {
                        let w = DeferredWriter::from_write(&mut out);
                        let mut bw = flussab_aiger::binary::Writer::<$t>::new(w);
                        bw.write_ordered_aig(&to_ordered::<$t>(a));
                        bw.write_ordered_aig(&to_ordered::<$t>(b));
                        let _ = std::io::Write::flush(&mut bw.writer);
                    }
                }
            }};
        }
        match lit % 5 {
            0 => body!(u8),
            1 => body!(u16),
            2 => body!(u32),
            3 => body!(u64),
            _ => body!(usize),
        }
    }
    out
}

/// While `f` runs, every writer wrapper of the harness first puts `pad` filler bytes into its
/// `DeferredWriter` (and removes them from what it returns): the document's bytes then sit at a
/// chosen distance from the end of the writer's 16 KiB buffer.
pub fn with_write_pad<R>(pad: usize, f: impl FnOnce() -> R) -> R {
    let old = WRITE_PAD.with(|p| p.replace(pad));
    let r = f();
    WRITE_PAD.with(|p| p.set(old));
    r
}

pub fn write_pad(w: &mut DeferredWriter) {
    let pad = WRITE_PAD.with(|p| p.get());
    if pad > 0 {
        w.write_all_defer_err(&vec![b'#'; pad]);
    }
}

pub fn strip_pad(mut out: Vec<u8>) -> Vec<u8> {
    let pad = WRITE_PAD.with(|p| p.get());
    if pad > 0 && out.len() >= pad && out[..pad].iter().all(|&b| b == b'#') {
        out.drain(..pad);
    }
    out
}

/// Writes an AIGER document with one of the crate's three whole-file writers.
pub fn write_aiger_with_crate(a: &AigOwned, lit: u8, which: AigWriter) -> Vec<u8> {
    let mut out = Vec::new();
    {
        macro_rules! body {
            ($t:ty) => {{
                match which {
                    AigWriter::AsciiAig => {
                        let mut w = DeferredWriter::from_write(&mut out);
                        write_pad(&mut w);
                        let aig = to_aig::<$t>(a);
                        flussab_aiger::ascii::Writer::<$t>::new(&mut w).write_aig(&aig);
                        let _ = std::io::Write::flush(&mut w);
                    }
                    AigWriter::AsciiOrdered => {
                        let mut w = DeferredWriter::from_write(&mut out);
                        write_pad(&mut w);
                        let aig = to_ordered::<$t>(a);
                        flussab_aiger::ascii::Writer::<$t>::new(&mut w).write_ordered_aig(&aig);
                        let _ = std::io::Write::flush(&mut w);
                    }
                    AigWriter::BinaryOrdered => {
                        let mut w = DeferredWriter::from_write(&mut out);
                        write_pad(&mut w);
                        let aig = to_ordered::<$t>(a);
                        let mut bw = flussab_aiger::binary::Writer::<$t>::new(w);
                        bw.write_ordered_aig(&aig);
                        let _ = std::io::Write::flush(&mut bw.writer);
                    }
                }
            }};
        }
        match lit % 5 {
            0 => body!(u8),
            1 => body!(u16),
            2 => body!(u32),
            3 => body!(u64),
            _ => body!(usize),
        }
    }
    strip_pad(out)
}

/// Renders a document with the crate's own writer for its format. `None` when a constructor
/// refuses a value (BTOR2 constants) - callers treat that as "not in the writer's domain".
pub fn write_with_crate(doc: &Doc, spec: &Spec) -> Option<Vec<u8>> {
    match doc {
        Doc::Dimacs(d) => Some(d.write_with_crate(spec.lit)),
        Doc::Log(_) => None,
        Doc::Aiger(d) => Some(write_aiger_with_crate(
            &d.aig,
            spec.lit,
            if d.binary { AigWriter::BinaryOrdered } else { AigWriter::AsciiAig },
        )),
        Doc::Btor(lines) => {
            let mut out = Vec::new();
            {
                let mut w = DeferredWriter::from_write(&mut out);
                write_pad(&mut w);
                for l in lines {
                    l.write_with_crate(&mut w, true).ok()?;
                }
                let _ = std::io::Write::flush(&mut w);
            }
            Some(strip_pad(out))
        }
    }
}

// ---------------------------------------------------------------------------------------------
// Mutations

pub fn boundary_numbers() -> Vec<String> {
    let mut v: Vec<String> = vec!["0".into(), "-0".into(), "1".into(), "-1".into(), "00".into(), "01".into()];
    for k in [7u32, 8, 15, 16, 31, 32, 63, 64, 127] {
        let p = 1u128 << k;
        for x in [p - 1, p, p + 1] {
            v.push(x.to_string());
            v.push(format!("-{x}"));
        }
    }
    v.push("340282366920938463463374607431768211455".into());
    v.push("340282366920938463463374607431768211456".into());
    for k in [6usize, 7, 8, 9, 19, 20] {
        v.push(format!("1{}", "0".repeat(k)));
        v.push("9".repeat(k));
    }
    v.push("1234567890123456789012345678901234567890".into());
    v.push("-".into());
    v.push("+1".into());
    v.push("1x".into());
    v.push("0x10".into());
    v
}

#[derive(Clone, Copy, Debug, PartialEq, Eq, Hash, Serialize, Deserialize)]
pub struct Mutation {
    pub kind: u8,
    pub pos: u16,
    pub arg: u16,
}

pub fn mutation_strategy() -> impl Strategy<Value = Mutation> {
    (0u8..14, any::<u16>(), any::<u16>()).prop_map(|(kind, pos, arg)| Mutation { kind, pos, arg })
}

// separators, digits, keyword letters, and the neighbours of the digit / letter / blank ranges
// (what a SWAR range test gets wrong first)
const INTERESTING_BYTES: &[u8] = b" \t\r\n0123456789-+cpvs{};ailobjf\x00\x80\xff\x7f/:@`[Gg\x8a\x8d\xa0\x0b\x1f!";

/// Applies one mutation; token-level mutations use the token map of the original rendering and
/// are skipped (byte-level fallback) once the map is stale.
pub fn mutate(bytes: &mut Vec<u8>, toks: &[crate::gen::Tok], fresh: bool, m: Mutation) -> &'static str {
    let n = bytes.len();
    let at = |len: usize| -> usize { (m.pos as usize * (len + 1)) >> 16 };
    let nums = boundary_numbers();
    if fresh && !toks.is_empty() && m.kind < 6 {
        let num_toks: Vec<&crate::gen::Tok> = toks
            .iter()
            .filter(|t| matches!(t.role, Role::Num | Role::Term0) && t.end <= n && t.start < t.end)
            .collect();
        let any = &toks[((m.pos as usize) * toks.len()) >> 16];
        match m.kind {
            0 | 1 if !num_toks.is_empty() => {
                let t = num_toks[((m.pos as usize) * num_toks.len()) >> 16];
                let repl = nums[(m.arg as usize * nums.len()) >> 16].as_bytes().to_vec();
                let mut r = repl;
                if bytes[t.start] == b'{' {
                    r.insert(0, b'{');
                    r.push(b'}');
                }
                bytes.splice(t.start..t.end, r);
                return "number-substitution";
            }
            2 if any.end <= n => {
                bytes.drain(any.start..any.end);
                return "token-delete";
            }
            3 if any.end <= n => {
                let mut dup = bytes[any.start..any.end].to_vec();
                dup.insert(0, b' ');
                let end = any.end;
                bytes.splice(end..end, dup);
                return "token-duplicate";
            }
            4 if any.end <= n => {
                let other = &toks[((m.arg as usize) * toks.len()) >> 16];
                if other.end <= n {
                    let o = bytes[other.start..other.end].to_vec();
                    bytes.splice(any.start..any.end, o);
                    return "token-replace";
                }
            }
            5 if any.end <= n => {
                // fuse with the following token by deleting the separator
                let mut e = any.end;
                while e < bytes.len() && matches!(bytes[e], b' ' | b'\t') {
                    e += 1;
                }
                if e > any.end {
                    bytes.drain(any.end..e);
                    return "token-fuse";
                }
            }
            _ => {}
        }
    }
    match m.kind % 8 {
        0 | 6 if n > 0 => {
            let i = at(n - 1);
            bytes[i] = INTERESTING_BYTES[(m.arg as usize) % INTERESTING_BYTES.len()];
            "byte-replace"
        }
        1 => {
            let i = at(n);
            bytes.insert(i, INTERESTING_BYTES[(m.arg as usize) % INTERESTING_BYTES.len()]);
            "byte-insert"
        }
        2 if n > 0 => {
            let i = at(n - 1);
            bytes.remove(i);
            "byte-delete"
        }
        3 => {
            let i = at(n);
            bytes.truncate(i);
            "truncate"
        }
        4 if n > 0 => {
            let i = at(n - 1);
            bytes[i] ^= 1 << (m.arg % 8);
            "bit-flip"
        }
        5 => {
            let i = at(n);
            let j = (m.arg as usize * (n + 1)) >> 16;
            let (a, b) = (i.min(j), i.max(j));
            let seg = bytes[a..b].to_vec();
            bytes.splice(a..a, seg);
            "segment-duplicate"
        }
        7 => {
            let i = at(n);
            let digits = nums[(m.arg as usize * nums.len()) >> 16].as_bytes().to_vec();
            bytes.splice(i..i, digits);
            "number-insert"
        }
        _ => {
            bytes.push(b'\n');
            "append-newline"
        }
    }
}

// ---------------------------------------------------------------------------------------------
// Hostile inputs (C05): huge declared counts, extreme numbers, over-long varints, invalid UTF-8

pub fn hostile_strategy(parser: ParserId) -> BoxedStrategy<Vec<u8>> {
    let big = prop_oneof![
        Just("18446744073709551615".to_string()),
        Just("18446744073709551616".to_string()),
        Just("9223372036854775807".to_string()),
        Just("9223372036854775808".to_string()),
        Just("9223372036854775809".to_string()),
        Just("4294967296".to_string()),
        Just("4294967295".to_string()),
        Just("2147483647".to_string()),
        Just("1000000000".to_string()),
        Just("100000000".to_string()),
        Just("65535".to_string()),
        Just("255".to_string()),
        Just("127".to_string()),
        Just("340282366920938463463374607431768211456".to_string()),
        (0u64..20).prop_map(|v| v.to_string()),
        any::<u64>().prop_map(|v| v.to_string()),
    ];
    match parser {
        ParserId::Cnf | ParserId::Wcnf | ParserId::Gcnf => {
            let kw = match parser {
                ParserId::Cnf => "cnf",
                ParserId::Wcnf => "wcnf",
                _ => "gcnf",
            };
            (proptest::collection::vec(big, 5), 0u8..4)
                .prop_map(move |(f, tail)| {
                    let mut s = format!("p {kw} {} {}", f[0], f[1]);
                    if kw != "cnf" {
                        s.push_str(&format!(" {}", f[2]));
                    }
                    s.push('\n');
                    match tail {
                        0 => {}
                        1 => s.push_str(&format!("{} {} 0\n", f[3], f[4])),
                        2 => s.push_str(&format!("{{{}}} -{} {} 0\n", f[3], f[4], f[3])),
                        _ => s.push_str(&format!("{} -{} 0", f[4], f[3])),
                    }
                    s.into_bytes()
                })
                .boxed()
        }
        ParserId::Log => (proptest::collection::vec(big, 3), 0u8..3)
            .prop_map(|(f, k)| match k {
                0 => format!("s SATISFIABLE\nv {} -{} {} 0\n", f[0], f[1], f[2]).into_bytes(),
                1 => format!("v {}\nv -{}\n", f[0], f[1]).into_bytes(),
                _ => format!("c x\nv {} 0", f[2]).into_bytes(),
            })
            .boxed(),
        ParserId::Aag | ParserId::AagParse | ParserId::Aig | ParserId::AigParse => {
            let binary = parser.is_binary_aiger();
            (
                proptest::collection::vec(big, 9),
                5usize..=9,
                proptest::collection::vec(any::<u8>(), 0..40),
                0u8..9,
            )
                .prop_map(move |(f, nf, tail, mode)| {
                    if mode == 4 && tail.first().map_or(false, |b| b % 2 == 0) {
                        // justice property sizes that are huge, or whose sum passes 2^64
                        let t = |k: usize| tail.get(k).copied().unwrap_or(0);
                        let sizes: Vec<String> = match t(1) % 4 {
                            0 => vec!["18446744073709551615".into(), "1".into()],
                            1 => vec!["9223372036854775808".into(), "0".into(), "9223372036854775808".into()],
                            2 => vec![f[0].clone(), f[1].clone()],
                            _ => vec!["18446744073709551614".into(), "2".into(), "0".into()],
                        };
                        let mut s = format!("{} 0 0 0 0 0 0 0 {} 0\n", if binary { "aig" } else { "aag" }, sizes.len());
                        for z in &sizes {
                            s.push_str(z);
                            s.push('\n');
                        }
                        for _ in 0..t(2) % 4 {
                            s.push_str("0\n");
                        }
                        return s.into_bytes();
                    }
                    if mode >= 6 && binary {
                        // delta codes of every length 1..=11 with arbitrary payload, in a file that is
                        // otherwise fine: one gate after I inputs
                        let t = |k: usize| tail.get(k).copied().unwrap_or(0);
                        let i: u128 = match t(0) % 4 {
                            0 => 1,
                            1 => 70,
                            2 => 1 << 61,
                            _ => (1 << 62) + 5,
                        };
                        let mut s = format!("aig {} {} 0 0 1\n", i + 1, i).into_bytes();
                        for v in 0..2 {
                            let n = 1 + (t(1 + v) % 11) as usize;
                            for k in 0..n - 1 {
                                s.push(0x80 | t(3 + v * 11 + k));
                            }
                            s.push(t(30 + v) & 0x7f);
                        }
                        if mode == 8 {
                            s.extend_from_slice(&tail[tail.len().min(32)..]);
                        }
                        return s;
                    }
                    if mode == 5 && tail.first().map_or(false, |b| b % 3 == 0) {
                        // exactly at a literal type's limit: M = (MAX_CODE - 1) / 2, I + L + A = M
                        let m: u128 = [127u128, 32767, 2147483647, 9223372036854775807][tail.len() % 4];
                        let (l, a) = ((tail[0] as u128 / 3) % 2, (tail[0] as u128 / 6) % 2);
                        let i = m - l - a;
                        let mut s = format!("{} {m} {i} {l} 0 {a}\n", if binary { "aig" } else { "aag" }).into_bytes();
                        if !binary {
                            // no input lines: the parse has to fail cleanly, not panic
                            s.extend_from_slice(b"2\n");
                        } else {
                            if l == 1 {
                                s.extend_from_slice(b"1\n");
                            }
                            if a == 1 {
                                s.extend_from_slice(&[1, 0]);
                            }
                        }
                        return s;
                    }
                    let mut s = if binary { b"aig".to_vec() } else { b"aag".to_vec() };
                    // mode 0: all fields hostile; other modes: keep M I L small so that the later
                    // fields are reached
                    for (i, x) in f.iter().take(nf).enumerate() {
                        s.push(b' ');
                        let keep_small = mode != 0 && i < 3;
                        if keep_small {
                            s.extend_from_slice(match i {
                                0 => b"3",
                                1 => b"1",
                                _ => b"1",
                            });
                        } else if mode == 2 && i == 3 {
                            s.extend_from_slice(b"0");
                        } else {
                            s.extend_from_slice(x.as_bytes());
                        }
                    }
                    s.push(b'\n');
                    match mode {
                        3 => s.extend_from_slice(b"2\n4 2\n"),
                        4 => s.extend_from_slice(&tail),
                        5 => {
                            // over-long varints
                            s.extend_from_slice(b"4 2\n");
                            s.extend(std::iter::repeat(0xffu8).take(12));
                            s.extend_from_slice(&tail);
                        }
                        _ => {}
                    }
                    s
                })
                .boxed()
        }
        ParserId::Btor2 => (proptest::collection::vec(big, 4), 0u8..5)
            .prop_map(|(f, k)| {
                match k {
                    0 => format!("{} sort bitvec {}\n", f[0], f[1]),
                    1 => format!("1 sort bitvec 1\n{} justice {} {} {}\n", f[0], f[1], f[2], f[3]),
                    2 => format!("1 sort bitvec 8\n2 slice 1 {} {} {}\n", f[0], f[1], f[2]),
                    3 => format!("1 sort bitvec 8\n\n\n{} constd 1 -{}\n", f[0], f[1]),
                    _ => format!("1 sort array {} {}\n2 uext 1 {} {}", f[0], f[1], f[2], f[3]),
                }
                .into_bytes()
            })
            .boxed(),
    }
}

// ---------------------------------------------------------------------------------------------
// Arbitrary bytes with a format-biased alphabet

pub fn arbitrary_strategy(parser: ParserId, max: usize) -> BoxedStrategy<Vec<u8>> {
    let words: Vec<&'static [u8]> = match parser {
        ParserId::Cnf | ParserId::Wcnf | ParserId::Gcnf => vec![
            b"p", b"cnf", b"wcnf", b"gcnf", b"c", b"0", b"-", b"1", b"-2", b"{1}", b"{", b"}", b"12345678", b"99999999999",
        ],
        ParserId::Log => vec![
            b"s ", b"v ", b"c ", b"SATISFIABLE", b"UNSATISFIABLE", b"UNKNOWN", b"0", b"-1", b"2", b"s", b"v", b"c",
        ],
        ParserId::Btor2 => vec![
            b"sort", b"bitvec", b"array", b"const", b"constd", b"consth", b"one", b"add", b"slice", b"justice", b"bad",
            b"init", b"next", b"1", b"2", b"10", b";", b"ite", b"state", b"input", b"x", b"uext", b"0",
        ],
        _ => vec![
            b"aag", b"aig", b"0", b"1", b"2", b"3", b"4", b"6", b"i0", b"o0", b"l0", b"b0", b"c0", b"j0", b"f0", b"c",
            b"\x80", b"\x81\x01", b"7",
        ],
    };
    let sep = prop_oneof![8 => Just(b' '), 5 => Just(b'\n'), 1 => Just(b'\t'), 1 => Just(b'\r')];
    let piece = prop_oneof![
        10 => proptest::sample::select(words).prop_map(|w| w.to_vec()),
        3 => (0u32..300).prop_map(|v| v.to_string().into_bytes()),
        2 => proptest::collection::vec(any::<u8>(), 1..4),
    ];
    proptest::collection::vec((piece, sep, any::<bool>()), 0..max / 4)
        .prop_map(|v| {
            let mut out = vec![];
            for (p, s, with_sep) in v {
                out.extend_from_slice(&p);
                if with_sep {
                    out.push(s);
                }
            }
            out
        })
        .boxed()
}

// ---------------------------------------------------------------------------------------------
// The combined input strategy

#[derive(Clone, Debug, PartialEq, Eq, Hash, Serialize, Deserialize)]
pub struct Input {
    pub spec: Spec,
    #[serde(with = "crate::engine::hexbytes")]
    pub bytes: Vec<u8>,
    pub class: String,
}

/// Text fixtures lifted from the repository's unit tests (fuzz seeds and mutation bases).
pub fn repo_seeds(parser: ParserId) -> Vec<&'static [u8]> {
    match parser {
        ParserId::Cnf => vec![
            b"1 2 -3 0\n4 5 0\n-6 0\n0\n",
            b"p cnf 3 4\n1 2 3 0\n-1 -2 0\n-2 -3 0\n3 0\n",
            b"c comment\np cnf 2 2\r\n1 2 0\r\n-1 -2 0\r\n",
            b"p cnf 0 0\n",
            b"p cnf 2147483647 0\n2147483647 0",
            b"1 2\n c split\n\n 3 0 \n",
        ],
        ParserId::Wcnf => vec![b"p wcnf 5 3 10\n10 1 -2 0\n3 4 5 0\n1 -5 0\n", b"3 1 2 0\n"],
        ParserId::Gcnf => vec![b"p gcnf 5 3 2\n{0} 1 -2 0\n{1} 4 5 0\n{2} -5 0\n", b"{1} 1 2 0\n"],
        ParserId::Log => vec![
            b"c foo\ns SATISFIABLE\nc bar\nv 1 -2 3\nv -4 0\n",
            b"s UNSATISFIABLE\n",
            b"s UNKNOWN\n",
            b"v 1 2 0\ns SATISFIABLE\n",
        ],
        ParserId::Aag | ParserId::AagParse => vec![
            b"aag 3 2 0 1 1\n2\n4\n6\n6 2 4\ni0 x\ni1 y\no0 z\nc\nhello\n",
            b"aag 1 0 1 2 0\n2 3\n2\n3\nl0 toggle\n",
            b"aag 0 0 0 0 0\n",
            b"aag 5 1 1 1 2 1 1 1 1\n2\n4 10 1\n6\n8\n3\n1\n10\n2\n8 2 4\n10 8 3\nb0 bad\nc0 con\nj0 jus\nf0 fair\n",
        ],
        ParserId::Aig | ParserId::AigParse => vec![
            b"aig 3 2 0 1 1\n6\n\x02\x02i0 x\no0 z\nc\nhello\n",
            b"aig 1 0 1 2 0\n3\n2\n3\n",
            b"aig 0 0 0 0 0\n",
        ],
        ParserId::Btor2 => vec![
            b"1 sort bitvec 8\n2 input 1 in\n3 state 1\n4 add 1 2 3\n5 next 1 3 4 ; step\n6 constd 1 -5\n7 eq 1 3 6\n8 bad 7\n; done\n",
            b"1 sort bitvec 1\n2 sort array 1 1\n3 justice 2 1 2\n",
        ],
    }
}

/// Inputs of every class for a generated spec. `max_items` bounds the abstract document.
pub fn input_strategy(max_items: usize, with_hostile: bool) -> impl Strategy<Value = Input> {
    spec_strategy().prop_flat_map(move |spec| input_for_spec(spec, max_items, with_hostile))
}

pub fn input_for_spec(spec: Spec, max_items: usize, with_hostile: bool) -> BoxedStrategy<Input> {
    let rendered = (doc_strategy(spec, max_items), choices_strategy(), 0u8..4).prop_map(move |(doc, ch, mode)| {
        // mode 0: plain reference rendering, 1-2: layout rendering, 3: the crate's own writer
        let junk = spec.parser == ParserId::Log && spec.flag;
        let (r, class): (Rendered, &str) = match mode {
            0 => (doc.render(&ch, false, false), "valid-plain"),
            1 | 2 => (doc.render(&ch, true, junk), "valid-layout"),
            _ => match write_with_crate(&doc, &spec) {
                Some(bytes) => (
                    Rendered {
                        bytes,
                        ..Rendered::default()
                    },
                    "valid-crate-writer",
                ),
                None => (doc.render(&ch, false, false), "valid-plain"),
            },
        };
        (r, class.to_string())
    })
    .boxed();
    let valid = rendered.clone().prop_map(move |(r, class)| Input {
        spec,
        bytes: r.bytes,
        class,
    });
    let mutated = (rendered, proptest::collection::vec(mutation_strategy(), 1..=3)).prop_map(move |((r, _), ms)| {
        let mut bytes = r.bytes.clone();
        let mut fresh = true;
        let mut names = vec![];
        for m in ms {
            names.push(mutate(&mut bytes, &r.toks, fresh, m));
            fresh = false;
        }
        Input {
            spec,
            bytes,
            class: format!("mutated/{}", names[0]),
        }
    });
    let seeds = repo_seeds(spec.parser);
    let seeded = (
        proptest::sample::select(seeds),
        proptest::collection::vec(mutation_strategy(), 0..=2),
    )
        .prop_map(move |(s, ms)| {
            let mut bytes = s.to_vec();
            for m in &ms {
                mutate(&mut bytes, &[], false, *m);
            }
            Input {
                spec,
                bytes,
                class: if ms.is_empty() { "repo-seed".into() } else { "repo-seed-mutated".into() },
            }
        });
    let arbitrary = arbitrary_strategy(spec.parser, 160).prop_map(move |bytes| Input {
        spec,
        bytes,
        class: "arbitrary".into(),
    });
    let spliced = (
        doc_strategy(spec, max_items),
        doc_strategy(spec, max_items),
        any::<u16>(),
        any::<u16>(),
    )
        .prop_map(move |(a, b, i, j)| {
            let ra = a.render(&[], false, false).bytes;
            let rb = b.render(&[], false, false).bytes;
            let i = (i as usize * (ra.len() + 1)) >> 16;
            let j = (j as usize * (rb.len() + 1)) >> 16;
            let mut bytes = ra[..i].to_vec();
            bytes.extend_from_slice(&rb[j..]);
            Input {
                spec,
                bytes,
                class: "spliced".into(),
            }
        });
    // a valid document behind what files from the wild start with: byte order marks (whole or
    // cut), line ends, NUL
    let prefixes: Vec<&'static [u8]> = vec![
        b"\xEF\xBB\xBF",
        b"\xEF\xBB",
        b"\xEF",
        b"\xFF\xFE",
        b"\xFE\xFF",
        b"\r\n",
        b"\n",
        b"\0",
        b" ",
        b"\xEF\xBB\xBF\n",
    ];
    let prefixed = (doc_strategy(spec, max_items), proptest::sample::select(prefixes)).prop_map(move |(d, pre)| {
        let mut bytes = pre.to_vec();
        bytes.extend_from_slice(&d.render(&[], false, false).bytes);
        Input {
            spec,
            bytes,
            class: "prefixed".into(),
        }
    });
    // BTOR2: constants whose text is only a candidate (characters next to the digit ranges), as raw
    // text - the scanners have to agree on where the constant ends however the bytes arrive
    let candidates = (
        proptest::collection::vec(
            (
                prop_oneof![Just("const"), Just("constd"), Just("consth")],
                "[0-9a-fA-F@`gG/:-]{1,14}",
                prop_oneof![3 => Just(""), 1 => Just(" sym"), 1 => Just(" ; c"), 1 => Just("@"), 1 => Just("`0")],
            ),
            1..4,
        ),
        any::<bool>(),
    )
        .prop_map(move |(lines, final_newline)| {
            let mut text = String::from("1 sort bitvec 8\n");
            for (i, (kw, payload, tail)) in lines.iter().enumerate() {
                text.push_str(&format!("{} {kw} 1 {payload}{tail}\n", i + 2));
            }
            if !final_newline {
                text.pop();
            }
            Input {
                spec,
                bytes: text.into_bytes(),
                class: "btor2-constant-candidates".into(),
            }
        });
    let cand_w = if spec.parser == ParserId::Btor2 { 3 } else { 0 };
    if with_hostile {
        let hostile = hostile_strategy(spec.parser).prop_map(move |bytes| Input {
            spec,
            bytes,
            class: "hostile".into(),
        });
        let repeated = repetition_strategy(spec, max_items);
        prop_oneof![
            20 => valid,
            24 => mutated,
            8 => seeded,
            12 => arbitrary,
            4 => spliced,
            16 => hostile,
            2 => prefixed,
            3 => repeated,
            cand_w => candidates,
        ]
        .boxed()
    } else {
        prop_oneof![
            12 => valid,
            12 => mutated,
            4 => seeded,
            6 => arbitrary,
            2 => spliced,
            1 => prefixed,
            cand_w => candidates,
        ]
        .boxed()
    }
}

/// One short token repeated 10^3..10^6 times at a token boundary of a valid document (C05: depth
/// of recursion, quadratic rescans and per-repetition allocations only show at this scale).
pub fn repetition_strategy(spec: Spec, max_items: usize) -> BoxedStrategy<Input> {
    let dict: Vec<&'static [u8]> = match spec.parser {
        ParserId::Cnf | ParserId::Wcnf | ParserId::Gcnf => vec![
            b"\n", b"c\n", b" ", b"\t", b"0 ", b"0\n", b"1 ", b"-1 ", b"-", b"c x\n", b"\r\n", b"{1} ", b"1 0\n", b"{", b"9",
        ],
        ParserId::Log => vec![b"\n", b"c\n", b"v ", b"v 1\n", b"v\n", b" ", b"1 ", b"-", b"s SATISFIABLE\n", b"x\n", b"0\n"],
        ParserId::Btor2 => vec![b"\n", b"; c\n", b";\n", b" ", b"1 ", b"-", b"\t", b"a", b"1 sort bitvec 1\n", b"0"],
        _ => vec![b"\n", b"0\n", b"2\n", b" ", b"c\n", b"\x80", b"\xff", b"\x00", b"i0 x\n", b"1", b"0 0 0\n"],
    };
    // (multi-byte UTF-8 characters and a plain letter: long "words" for the error excerpts)
    let mut dict = dict;
    dict.extend_from_slice(&[&b"\xc3\xa9"[..], &b"\xe2\x86\x92"[..], &b"\xf0\x9f\x98\x8a"[..], &b"a"[..], &b"a\xc3\xa9"[..]]);
    (
        doc_strategy(spec, max_items),
        proptest::sample::select(dict),
        prop_oneof![2 => 20usize..200, 3 => 1_000usize..20_000, 2 => 20_000usize..200_000, 1 => 200_000usize..1_000_000],
        any::<u16>(),
        any::<bool>(),
    )
        .prop_map(move |(d, tok, n, at, cut_tail)| {
            let r = d.render(&[], false, false);
            // a token boundary when the rendering has tokens, any offset otherwise
            let pos = if r.toks.is_empty() {
                (at as usize * (r.bytes.len() + 1)) >> 16
            } else {
                r.toks[(at as usize * r.toks.len()) >> 16].end.min(r.bytes.len())
            };
            let mut bytes = r.bytes[..pos].to_vec();
            if !bytes.is_empty() && !tok.starts_with(b"\n") {
                bytes.push(b' ');
            }
            // at most ~1 MB per case
            let n = n.min((1 << 20) / tok.len());
            for _ in 0..n {
                bytes.extend_from_slice(tok);
            }
            if !cut_tail {
                bytes.extend_from_slice(&r.bytes[pos..]);
            }
            Input {
                spec,
                bytes,
                class: "repeated-token".into(),
            }
        })
        .boxed()
}

/// Was this AIGER document written for the binary format (helper for callers that only have a
/// spec)?
pub fn aig_is_binary(d: &AigDoc) -> bool {
    d.binary
}

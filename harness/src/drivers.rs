//! Uniform drivers: run any flussab parser over a scheduled source and turn the run into a
//! comparable `Trace` (owned items + final outcome + per-item source accounting).
use std::cell::RefCell;
use std::panic::{catch_unwind, AssertUnwindSafe};
use std::rc::Rc;

use flussab::text::LineReader;
use flussab::DeferredReader;
use flussab_aiger::aig::{Aig, OrderedAig, Symbol, SymbolTarget};
use flussab_aiger::Lit;
use flussab_cnf::Dimacs;
use serde::{Deserialize, Serialize};

use crate::btor::BLine;
use crate::engine::{last_panic_location, panic_message};
use crate::source::{build_init, Feed, Init, SrcLog};

#[derive(Clone, Copy, Debug, PartialEq, Eq, Hash, Serialize, Deserialize, PartialOrd, Ord)]
pub enum ParserId {
    Cnf,
    Wcnf,
    Gcnf,
    Log,
    /// ASCII AIGER through the streaming section readers.
    Aag,
    /// Binary AIGER through the streaming section readers.
    Aig,
    /// ASCII AIGER through the collecting `parse()`.
    AagParse,
    /// Binary AIGER through the collecting `parse()`.
    AigParse,
    Btor2,
}

pub const ALL_PARSERS: [ParserId; 9] = [
    ParserId::Cnf,
    ParserId::Wcnf,
    ParserId::Gcnf,
    ParserId::Log,
    ParserId::Aag,
    ParserId::Aig,
    ParserId::AagParse,
    ParserId::AigParse,
    ParserId::Btor2,
];

impl ParserId {
    pub fn name(self) -> &'static str {
        match self {
            ParserId::Cnf => "cnf",
            ParserId::Wcnf => "wcnf",
            ParserId::Gcnf => "gcnf",
            ParserId::Log => "solverlog",
            ParserId::Aag => "aag",
            ParserId::Aig => "aig",
            ParserId::AagParse => "aag-parse",
            ParserId::AigParse => "aig-parse",
            ParserId::Btor2 => "btor2",
        }
    }
    pub fn is_dimacs(self) -> bool {
        matches!(self, ParserId::Cnf | ParserId::Wcnf | ParserId::Gcnf | ParserId::Log)
    }
    pub fn is_aiger(self) -> bool {
        matches!(
            self,
            ParserId::Aag | ParserId::Aig | ParserId::AagParse | ParserId::AigParse
        )
    }
    pub fn is_binary_aiger(self) -> bool {
        matches!(self, ParserId::Aig | ParserId::AigParse)
    }
}

pub const DIMACS_TYPES: [&str; 5] = ["i8", "i16", "i32", "i64", "isize"];
pub const AIGER_TYPES: [&str; 5] = ["u8", "u16", "u32", "u64", "usize"];

#[derive(Clone, Copy, Debug, PartialEq, Eq, Hash, Serialize, Deserialize)]
pub struct Spec {
    pub parser: ParserId,
    /// Index into DIMACS_TYPES / AIGER_TYPES (ignored for BTOR2).
    pub lit: u8,
    /// ignore_header (cnf/wcnf/gcnf), ignore_unknown_lines (solver log), or - for the AIGER
    /// streaming section readers - "skip mode": only the first entry of every section is read
    /// through `next_*`, the rest is left to the section transition functions to skip.
    pub flag: bool,
}

impl Spec {
    pub fn lit_name(&self) -> &'static str {
        if self.parser.is_dimacs() {
            DIMACS_TYPES[self.lit as usize % 5]
        } else if self.parser.is_aiger() {
            AIGER_TYPES[self.lit as usize % 5]
        } else {
            "-"
        }
    }
    pub fn max_dimacs(&self) -> i128 {
        match self.lit % 5 {
            0 => i8::MAX as i128,
            1 => i16::MAX as i128,
            2 => i32::MAX as i128,
            _ => isize::MAX as i128,
        }
    }
    pub fn max_code(&self) -> u128 {
        match self.lit % 5 {
            0 => u8::MAX as u128,
            1 => u16::MAX as u128,
            2 => u32::MAX as u128,
            _ => usize::MAX as u128,
        }
    }
    pub fn describe(&self) -> String {
        format!("{}<{}>{}", self.parser.name(), self.lit_name(), if self.flag { "+flag" } else { "" })
    }
}

#[derive(Clone, Debug, PartialEq, Eq, Hash, Serialize, Deserialize, Default)]
pub struct AigOwned {
    pub max_var_index: u64,
    /// ASCII: the input literals; binary/ordered: empty, see `input_count`.
    pub inputs: Vec<u64>,
    pub input_count: u64,
    /// (state (None for ordered), next, initialization)
    pub latches: Vec<(Option<u64>, u64, Option<bool>)>,
    pub outputs: Vec<u64>,
    pub bad: Vec<u64>,
    pub constraints: Vec<u64>,
    pub justice: Vec<Vec<u64>>,
    pub fairness: Vec<u64>,
    /// (output (None for ordered), input0, input1)
    pub ands: Vec<(Option<u64>, u64, u64)>,
    /// (kind letter, index, name)
    pub symbols: Vec<(char, u64, String)>,
    pub comment: Option<String>,
}

#[derive(Clone, Debug, PartialEq, Eq, Hash, Serialize, Deserialize)]
pub enum Item {
    /// DIMACS header (var count, clause count[, top weight / group count]) or the nine AIGER
    /// header fields.
    Header(Vec<u64>),
    Clause { extra: Option<u64>, lits: Vec<i64> },
    Log { sat: Option<bool>, assignment: Vec<i64> },
    /// AIGER literal of section 'i','o','b','c','j' (justice literal),'f'.
    Lit { section: char, code: u64 },
    Latch { state: Option<u64>, next: u64, init: Option<bool> },
    JusticeSize(u64),
    And { out: Option<u64>, ins: [u64; 2] },
    Symbol { kind: char, index: u64, name: String },
    Comment(String),
    Aig(Box<AigOwned>),
    Btor(BLine),
}

#[derive(Clone, Debug, PartialEq, Eq, Hash, Serialize, Deserialize)]
pub enum Final {
    End,
    Syntax { line: usize, col: usize, msg: String },
    Io { kind: String, msg: String },
    Panic { msg: String, loc: String },
}

impl Final {
    pub fn short(&self) -> String {
        match self {
            Final::End => "clean end".into(),
            Final::Syntax { line, col, msg } => format!("syntax error {line}:{col}: {msg}"),
            Final::Io { kind, msg } => format!("I/O error {kind}: {msg}"),
            Final::Panic { msg, loc } => format!("PANIC at {loc}: {msg}"),
        }
    }
    pub fn is_syntax(&self) -> bool {
        matches!(self, Final::Syntax { .. })
    }
}

/// Source accounting at the moment an item was handed out.
#[derive(Clone, Copy, Debug, PartialEq, Eq, Default)]
pub struct Mark {
    pub delivered: usize,
    pub calls: u64,
}

#[derive(Clone, Debug)]
pub struct Trace {
    pub items: Vec<Item>,
    pub fin: Final,
    pub marks: Vec<Mark>,
    pub item_count: usize,
}

struct Collector {
    collect: bool,
    items: Vec<Item>,
    marks: Vec<Mark>,
    count: usize,
    log: Rc<RefCell<SrcLog>>,
}

impl Collector {
    fn push(&mut self, make: impl FnOnce() -> Item) {
        self.count += 1;
        if self.collect {
            let l = self.log.borrow();
            self.marks.push(Mark {
                delivered: l.delivered,
                calls: l.calls,
            });
            drop(l);
            self.items.push(make());
        }
    }
}

fn sym_kind(t: SymbolTarget) -> (char, u64) {
    match t {
        SymbolTarget::Input(i) => ('i', i as u64),
        SymbolTarget::Output(i) => ('o', i as u64),
        SymbolTarget::Latch(i) => ('l', i as u64),
        SymbolTarget::BadStateProperty(i) => ('b', i as u64),
        SymbolTarget::InvariantConstraint(i) => ('c', i as u64),
        SymbolTarget::JusticeProperty(i) => ('j', i as u64),
        SymbolTarget::FairnessConstraint(i) => ('f', i as u64),
    }
}

pub fn sym_target(kind: char, index: u64) -> SymbolTarget {
    let i = index as usize;
    match kind {
        'i' => SymbolTarget::Input(i),
        'o' => SymbolTarget::Output(i),
        'l' => SymbolTarget::Latch(i),
        'b' => SymbolTarget::BadStateProperty(i),
        'c' => SymbolTarget::InvariantConstraint(i),
        'j' => SymbolTarget::JusticeProperty(i),
        _ => SymbolTarget::FairnessConstraint(i),
    }
}

fn owned_symbols(s: &[Symbol]) -> Vec<(char, u64, String)> {
    s.iter()
        .map(|s| {
            let (k, i) = sym_kind(s.target);
            (k, i, s.name.to_string())
        })
        .collect()
}

pub fn aig_owned<L: Lit>(a: &Aig<L>) -> AigOwned {
    let c = |l: &L| l.code() as u64;
    AigOwned {
        max_var_index: a.max_var_index as u64,
        inputs: a.inputs.iter().map(c).collect(),
        input_count: a.inputs.len() as u64,
        latches: a
            .latches
            .iter()
            .map(|l| (Some(c(&l.state)), c(&l.next_state), l.initialization))
            .collect(),
        outputs: a.outputs.iter().map(c).collect(),
        bad: a.bad_state_properties.iter().map(c).collect(),
        constraints: a.invariant_constraints.iter().map(c).collect(),
        justice: a
            .justice_properties
            .iter()
            .map(|j| j.iter().map(c).collect())
            .collect(),
        fairness: a.fairness_constraints.iter().map(c).collect(),
        ands: a
            .and_gates
            .iter()
            .map(|g| (Some(c(&g.output)), c(&g.inputs[0]), c(&g.inputs[1])))
            .collect(),
        symbols: owned_symbols(&a.symbols),
        comment: a.comment.clone(),
    }
}

pub fn ordered_owned<L: Lit>(a: &OrderedAig<L>) -> AigOwned {
    let c = |l: &L| l.code() as u64;
    AigOwned {
        max_var_index: a.max_var_index as u64,
        inputs: vec![],
        input_count: a.input_count as u64,
        latches: a
            .latches
            .iter()
            .map(|l| (None, c(&l.next_state), l.initialization))
            .collect(),
        outputs: a.outputs.iter().map(c).collect(),
        bad: a.bad_state_properties.iter().map(c).collect(),
        constraints: a.invariant_constraints.iter().map(c).collect(),
        justice: a
            .justice_properties
            .iter()
            .map(|j| j.iter().map(c).collect())
            .collect(),
        fairness: a.fairness_constraints.iter().map(c).collect(),
        ands: a
            .and_gates
            .iter()
            .map(|g| (None, c(&g.inputs[0]), c(&g.inputs[1])))
            .collect(),
        symbols: owned_symbols(&a.symbols),
        comment: a.comment.clone(),
    }
}

enum Stop {
    Syntax { line: usize, col: usize, msg: String },
    Io { kind: String, msg: String },
}

fn stop_cnf(e: flussab_cnf::ParseError) -> Stop {
    match *e {
        flussab_cnf::InnerParseError::SyntaxError(s) => Stop::Syntax {
            line: s.location.line,
            col: s.location.column,
            msg: s.msg,
        },
        flussab_cnf::InnerParseError::IoError(e) => Stop::Io {
            kind: format!("{:?}", e.kind()),
            msg: crate::source::describe_io(&e),
        },
    }
}

fn stop_aiger(e: flussab_aiger::ParseError) -> Stop {
    match *e {
        flussab_aiger::InnerParseError::SyntaxError(s) => Stop::Syntax {
            line: s.location.line,
            col: s.location.column,
            msg: s.msg,
        },
        flussab_aiger::InnerParseError::IoError(e) => Stop::Io {
            kind: format!("{:?}", e.kind()),
            msg: crate::source::describe_io(&e),
        },
    }
}

fn stop_btor(e: flussab_btor2::ParseError) -> Stop {
    match *e {
        flussab_btor2::InnerParseError::SyntaxError(s) => Stop::Syntax {
            line: s.location.line,
            col: s.location.column,
            msg: s.msg,
        },
        flussab_btor2::InnerParseError::IoError(e) => Stop::Io {
            kind: format!("{:?}", e.kind()),
            msg: crate::source::describe_io(&e),
        },
    }
}

/// Constructs a parser through the constructor that matches how the source was prepared.
macro_rules! make_parser {
    ($P:ty, $init:expr, $cfg:expr) => {
        match $init {
            Init::Reader(r) => <$P>::new(LineReader::new(r), $cfg),
            Init::Read(s) => <$P>::from_read(s, $cfg),
            Init::Boxed(s) => <$P>::from_boxed_dyn_read(Box::new(s), $cfg),
            Init::Buf(b) => <$P>::from_buf_reader(b, $cfg),
            Init::BufDyn(b) => <$P>::from_buf_reader(b, $cfg),
        }
    };
}

fn lits64<L: Dimacs>(l: &[L]) -> Vec<i64> {
    l.iter().map(|x| x.dimacs() as i64).collect()
}

fn drive_cnf<L: Dimacs>(r: Init, flag: bool, c: &mut Collector) -> Result<(), Stop> {
    use flussab_cnf::cnf::{Config, Parser};
    let mut p = make_parser!(Parser::<L>, r, Config::default().ignore_header(flag)).map_err(stop_cnf)?;
    if let Some(h) = p.header() {
        c.push(|| Item::Header(vec![h.var_count as u64, h.clause_count as u64]));
    }
    while let Some(cl) = p.next_clause().map_err(stop_cnf)? {
        c.push(|| Item::Clause {
            extra: None,
            lits: lits64(cl),
        });
    }
    Ok(())
}

fn drive_wcnf<L: Dimacs>(r: Init, flag: bool, c: &mut Collector) -> Result<(), Stop> {
    use flussab_cnf::wcnf::{Config, Parser};
    let mut p = make_parser!(Parser::<L>, r, Config::default().ignore_header(flag)).map_err(stop_cnf)?;
    if let Some(h) = p.header() {
        c.push(|| Item::Header(vec![h.var_count as u64, h.clause_count as u64, h.top_weight]));
    }
    while let Some((w, cl)) = p.next_clause().map_err(stop_cnf)? {
        c.push(|| Item::Clause {
            extra: Some(w),
            lits: lits64(cl),
        });
    }
    Ok(())
}

fn drive_gcnf<L: Dimacs>(r: Init, flag: bool, c: &mut Collector) -> Result<(), Stop> {
    use flussab_cnf::gcnf::{Config, Parser};
    let mut p = make_parser!(Parser::<L>, r, Config::default().ignore_header(flag)).map_err(stop_cnf)?;
    if let Some(h) = p.header() {
        c.push(|| Item::Header(vec![h.var_count as u64, h.clause_count as u64, h.group_count as u64]));
    }
    while let Some((g, cl)) = p.next_clause().map_err(stop_cnf)? {
        c.push(|| Item::Clause {
            extra: Some(g as u64),
            lits: lits64(cl),
        });
    }
    Ok(())
}

fn drive_log<L: Dimacs>(r: Init, flag: bool, c: &mut Collector) -> Result<(), Stop> {
    use flussab_cnf::sat_solver_log::{parse_log, Config};
    let mut lr = LineReader::new(r.into_reader());
    let log = parse_log::<L>(&mut lr, Config::default().ignore_unknown_lines(flag)).map_err(stop_cnf)?;
    c.push(|| Item::Log {
        sat: log.satisfiable,
        assignment: lits64(&log.assignment),
    });
    Ok(())
}

fn header_item_ascii(h: &flussab_aiger::ascii::Header) -> Item {
    Item::Header(vec![
        h.max_var_index as u64,
        h.input_count as u64,
        h.latch_count as u64,
        h.output_count as u64,
        h.and_gate_count as u64,
        h.bad_state_property_count as u64,
        h.invariant_constraint_count as u64,
        h.justice_property_count as u64,
        h.fairness_constraint_count as u64,
    ])
}

fn header_item_binary(h: &flussab_aiger::binary::Header) -> Item {
    Item::Header(vec![
        h.max_var_index as u64,
        h.input_count as u64,
        h.latch_count as u64,
        h.output_count as u64,
        h.and_gate_count as u64,
        h.bad_state_property_count as u64,
        h.invariant_constraint_count as u64,
        h.justice_property_count as u64,
        h.fairness_constraint_count as u64,
    ])
}

fn drive_aag<L: Lit>(r: Init, skip: bool, c: &mut Collector) -> Result<(), Stop> {
    use flussab_aiger::ascii::{Config, Parser};
    let p = make_parser!(Parser::<L>, r, Config::default()).map_err(stop_aiger)?;
    let h = p.header().clone();
    c.push(|| header_item_ascii(&h));
    let code = |l: L| l.code() as u64;
    let mut s = p.inputs().map_err(stop_aiger)?;
    while let Some(l) = s.next_input().map_err(stop_aiger)? {
        c.push(|| Item::Lit { section: 'i', code: code(l) });
        if skip {
            break;
        }
    }
    let mut s = s.latches().map_err(stop_aiger)?;
    while let Some(l) = s.next_latch().map_err(stop_aiger)? {
        c.push(|| Item::Latch {
            state: Some(code(l.state)),
            next: code(l.next_state),
            init: l.initialization,
        });
        if skip {
            break;
        }
    }
    let mut s = s.outputs().map_err(stop_aiger)?;
    while let Some(l) = s.next_output().map_err(stop_aiger)? {
        c.push(|| Item::Lit { section: 'o', code: code(l) });
        if skip {
            break;
        }
    }
    let mut s = s.bad_state_properties().map_err(stop_aiger)?;
    while let Some(l) = s.next_bad_state_property().map_err(stop_aiger)? {
        c.push(|| Item::Lit { section: 'b', code: code(l) });
        if skip {
            break;
        }
    }
    let mut s = s.invariant_constraints().map_err(stop_aiger)?;
    while let Some(l) = s.next_invariant_constraint().map_err(stop_aiger)? {
        c.push(|| Item::Lit { section: 'c', code: code(l) });
        if skip {
            break;
        }
    }
    let mut s = s.justice_properties().map_err(stop_aiger)?;
    while let Some(n) = s.next_justice_property_size().map_err(stop_aiger)? {
        c.push(|| Item::JusticeSize(n as u64));
        if skip {
            break;
        }
    }
    let mut s = s.justice_property_local_fairness_constraints().map_err(stop_aiger)?;
    while let Some(l) = s
        .next_justice_property_local_fairness_constraint()
        .map_err(stop_aiger)?
    {
        c.push(|| Item::Lit { section: 'j', code: code(l) });
        if skip {
            break;
        }
    }
    let mut s = s.fairness_constraints().map_err(stop_aiger)?;
    while let Some(l) = s.next_fairness_constraint().map_err(stop_aiger)? {
        c.push(|| Item::Lit { section: 'f', code: code(l) });
        if skip {
            break;
        }
    }
    let mut s = s.and_gates().map_err(stop_aiger)?;
    while let Some(g) = s.next_and_gate().map_err(stop_aiger)? {
        c.push(|| Item::And {
            out: Some(code(g.output)),
            ins: [code(g.inputs[0]), code(g.inputs[1])],
        });
        if skip {
            break;
        }
    }
    let mut s = s.symbols().map_err(stop_aiger)?;
    while let Some(sym) = s.next_symbol().map_err(stop_aiger)? {
        let (k, i) = sym_kind(sym.target);
        let name = sym.name.to_string();
        c.push(|| Item::Symbol { kind: k, index: i, name });
        if skip {
            break;
        }
    }
    if let Some(cm) = s.comment().map_err(stop_aiger)? {
        let cm = cm.to_string();
        c.push(|| Item::Comment(cm));
    }
    Ok(())
}

fn drive_aig<L: Lit>(r: Init, skip: bool, c: &mut Collector) -> Result<(), Stop> {
    use flussab_aiger::binary::{Config, Parser};
    let p = make_parser!(Parser::<L>, r, Config::default()).map_err(stop_aiger)?;
    let h = p.header().clone();
    c.push(|| header_item_binary(&h));
    let code = |l: L| l.code() as u64;
    let mut s = p.latches().map_err(stop_aiger)?;
    while let Some(l) = s.next_latch().map_err(stop_aiger)? {
        c.push(|| Item::Latch {
            state: None,
            next: code(l.next_state),
            init: l.initialization,
        });
        if skip {
            break;
        }
    }
    let mut s = s.outputs().map_err(stop_aiger)?;
    while let Some(l) = s.next_output().map_err(stop_aiger)? {
        c.push(|| Item::Lit { section: 'o', code: code(l) });
        if skip {
            break;
        }
    }
    let mut s = s.bad_state_properties().map_err(stop_aiger)?;
    while let Some(l) = s.next_bad_state_property().map_err(stop_aiger)? {
        c.push(|| Item::Lit { section: 'b', code: code(l) });
        if skip {
            break;
        }
    }
    let mut s = s.invariant_constraints().map_err(stop_aiger)?;
    while let Some(l) = s.next_invariant_constraint().map_err(stop_aiger)? {
        c.push(|| Item::Lit { section: 'c', code: code(l) });
        if skip {
            break;
        }
    }
    let mut s = s.justice_properties().map_err(stop_aiger)?;
    while let Some(n) = s.next_justice_property_size().map_err(stop_aiger)? {
        c.push(|| Item::JusticeSize(n as u64));
        if skip {
            break;
        }
    }
    let mut s = s.justice_property_local_fairness_constraints().map_err(stop_aiger)?;
    while let Some(l) = s
        .next_justice_property_local_fairness_constraint()
        .map_err(stop_aiger)?
    {
        c.push(|| Item::Lit { section: 'j', code: code(l) });
        if skip {
            break;
        }
    }
    let mut s = s.fairness_constraints().map_err(stop_aiger)?;
    while let Some(l) = s.next_fairness_constraint().map_err(stop_aiger)? {
        c.push(|| Item::Lit { section: 'f', code: code(l) });
        if skip {
            break;
        }
    }
    let mut s = s.and_gates().map_err(stop_aiger)?;
    while let Some(g) = s.next_and_gate().map_err(stop_aiger)? {
        c.push(|| Item::And {
            out: None,
            ins: [code(g.inputs[0]), code(g.inputs[1])],
        });
        if skip {
            break;
        }
    }
    let mut s = s.symbols().map_err(stop_aiger)?;
    while let Some(sym) = s.next_symbol().map_err(stop_aiger)? {
        let (k, i) = sym_kind(sym.target);
        let name = sym.name.to_string();
        c.push(|| Item::Symbol { kind: k, index: i, name });
        if skip {
            break;
        }
    }
    if let Some(cm) = s.comment().map_err(stop_aiger)? {
        let cm = cm.to_string();
        c.push(|| Item::Comment(cm));
    }
    Ok(())
}

fn drive_aag_parse<L: Lit>(r: Init, c: &mut Collector) -> Result<(), Stop> {
    use flussab_aiger::ascii::{Config, Parser};
    let p = make_parser!(Parser::<L>, r, Config::default()).map_err(stop_aiger)?;
    let aig = p.parse().map_err(stop_aiger)?;
    c.push(|| Item::Aig(Box::new(aig_owned(&aig))));
    Ok(())
}

fn drive_aig_parse<L: Lit>(r: Init, c: &mut Collector) -> Result<(), Stop> {
    use flussab_aiger::binary::{Config, Parser};
    let p = make_parser!(Parser::<L>, r, Config::default()).map_err(stop_aiger)?;
    let aig = p.parse().map_err(stop_aiger)?;
    c.push(|| Item::Aig(Box::new(ordered_owned(&aig))));
    Ok(())
}

fn drive_btor(r: Init, c: &mut Collector) -> Result<(), Stop> {
    use flussab_btor2::{Config, Parser};
    let mut p = make_parser!(Parser, r, Config::default()).map_err(stop_btor)?;
    while let Some(line) = p.next_line().map_err(stop_btor)? {
        // every returned line can be shown (Display is part of the item's public surface)
        let shown = line.to_string();
        std::hint::black_box(&shown);
        c.push(|| Item::Btor(BLine::from_line(&line)));
    }
    Ok(())
}

/// Runs the parser selected by `spec` over an already constructed reader.
pub fn run_on_reader(
    spec: &Spec,
    reader: DeferredReader<'static>,
    log: Rc<RefCell<SrcLog>>,
    collect: bool,
) -> Trace {
    run_on_init(spec, Init::Reader(reader), log, collect)
}

/// Runs the parser selected by `spec` over a prepared source.
pub fn run_on_init(spec: &Spec, reader: Init, log: Rc<RefCell<SrcLog>>, collect: bool) -> Trace {
    let mut c = Collector {
        collect,
        items: vec![],
        marks: vec![],
        count: 0,
        log,
    };
    let flag = spec.flag;
    let lit = spec.lit % 5;
    let r = catch_unwind(AssertUnwindSafe(|| {
        macro_rules! dimacs {
            ($f:ident) => {
                match lit {
                    0 => $f::<i8>(reader, flag, &mut c),
                    1 => $f::<i16>(reader, flag, &mut c),
                    2 => $f::<i32>(reader, flag, &mut c),
                    3 => $f::<i64>(reader, flag, &mut c),
                    _ => $f::<isize>(reader, flag, &mut c),
                }
            };
        }
        macro_rules! aiger {
            ($f:ident) => {
                match lit {
                    0 => $f::<u8>(reader, &mut c),
                    1 => $f::<u16>(reader, &mut c),
                    2 => $f::<u32>(reader, &mut c),
                    3 => $f::<u64>(reader, &mut c),
                    _ => $f::<usize>(reader, &mut c),
                }
            };
        }
        macro_rules! aiger_stream {
            ($f:ident) => {
                match lit {
                    0 => $f::<u8>(reader, flag, &mut c),
                    1 => $f::<u16>(reader, flag, &mut c),
                    2 => $f::<u32>(reader, flag, &mut c),
                    3 => $f::<u64>(reader, flag, &mut c),
                    _ => $f::<usize>(reader, flag, &mut c),
                }
            };
        }
        match spec.parser {
            ParserId::Cnf => dimacs!(drive_cnf),
            ParserId::Wcnf => dimacs!(drive_wcnf),
            ParserId::Gcnf => dimacs!(drive_gcnf),
            ParserId::Log => dimacs!(drive_log),
            ParserId::Aag => aiger_stream!(drive_aag),
            ParserId::Aig => aiger_stream!(drive_aig),
            ParserId::AagParse => aiger!(drive_aag_parse),
            ParserId::AigParse => aiger!(drive_aig_parse),
            ParserId::Btor2 => drive_btor(reader, &mut c),
        }
    }));
    let fin = match r {
        Ok(Ok(())) => Final::End,
        Ok(Err(Stop::Syntax { line, col, msg })) => Final::Syntax { line, col, msg },
        Ok(Err(Stop::Io { kind, msg })) => Final::Io { kind, msg },
        Err(p) => Final::Panic {
            msg: panic_message(&p),
            loc: last_panic_location(),
        },
    };
    Trace {
        items: c.items,
        fin,
        marks: c.marks,
        item_count: c.count,
    }
}

/// Builds the reader as described by `feed` and runs the parser.
pub fn run(
    spec: &Spec,
    data: Rc<Vec<u8>>,
    feed: &Feed,
    cuts: Option<Rc<Vec<usize>>>,
    collect: bool,
) -> (Trace, SrcLog) {
    let (init, log) = build_init(data, feed, cuts);
    let t = run_on_init(spec, init, log.clone(), collect);
    let l = log.borrow().clone();
    (t, l)
}

/// The document sits behind `k` foreign bytes that the caller consumes from the reader before
/// handing it to `LineReader::new` ("line 1 starts at the current position"): a skipped byte order
/// mark, a magic number, a preamble.
pub fn run_behind_preamble(
    spec: &Spec,
    data: Rc<Vec<u8>>,
    feed: &Feed,
    k: usize,
    collect: bool,
) -> (Trace, SrcLog) {
    let (mut reader, log) = crate::source::build_reader(data, feed, None);
    let mut left = k;
    while left > 0 {
        let want = left.min(7);
        let got = reader.request(want).len();
        if got == 0 {
            break;
        }
        let n = got.min(want);
        reader.advance(n);
        left -= n;
    }
    let t = run_on_init(spec, Init::Reader(reader), log.clone(), collect);
    let l = log.borrow().clone();
    (t, l)
}

/// The caller looks ahead by `n` bytes before handing the reader to the parser (sniffing the
/// format, checking a length): the parser starts on a reader that may already have seen the end
/// of the input or the source's failure.
pub fn run_sniffed(spec: &Spec, data: Rc<Vec<u8>>, feed: &Feed, n: usize, collect: bool) -> (Trace, SrcLog) {
    let (mut reader, log) = crate::source::build_reader(data, feed, None);
    let _ = reader.request(n);
    let t = run_on_init(spec, Init::Reader(reader), log.clone(), collect);
    let l = log.borrow().clone();
    (t, l)
}

/// What a streaming AIGER driver reports in skip mode: the header, the first entry of every
/// section (the library skips the others in the transition functions) and the comment.
pub fn skip_filter(items: &[Item]) -> Vec<Item> {
    fn class(i: &Item) -> (u8, char) {
        match i {
            Item::Header(_) => (0, ' '),
            Item::Lit { section, .. } => (1, *section),
            Item::Latch { .. } => (2, ' '),
            Item::JusticeSize(_) => (3, ' '),
            Item::And { .. } => (4, ' '),
            Item::Symbol { .. } => (5, ' '),
            Item::Comment(_) => (6, ' '),
            _ => (7, ' '),
        }
    }
    let mut out: Vec<Item> = vec![];
    let mut last: Option<(u8, char)> = None;
    for it in items {
        let c = class(it);
        if Some(c) != last {
            out.push(it.clone());
        }
        last = Some(c);
    }
    out
}

impl Spec {
    pub fn skip_mode(&self) -> bool {
        self.flag && matches!(self.parser, ParserId::Aag | ParserId::Aig)
    }
    /// Which parsers interpret the flag at all.
    pub fn flag_applies(parser: ParserId) -> bool {
        parser.is_dimacs() || matches!(parser, ParserId::Aag | ParserId::Aig)
    }
}

/// An ordered AIG with its implicit numbering made explicit (what `Aig::from(OrderedAig)` and
/// `ascii::write_ordered_aig` followed by the ASCII parser must yield).
pub fn ordered_to_plain(a: &AigOwned) -> AigOwned {
    let mut b = a.clone();
    let i = a.input_count;
    b.inputs = (1..=i).map(|v| 2 * v).collect();
    let mut code = 2 * (i + 1);
    for l in &mut b.latches {
        l.0 = Some(code);
        code = code.wrapping_add(2);
    }
    for g in &mut b.ands {
        g.0 = Some(code);
        code = code.wrapping_add(2);
    }
    b
}


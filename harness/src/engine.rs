//! Engine shared by all property checks: seeding, sharding, proptest driving, counters,
//! distinct/non-trivial accounting, replay files, known findings, "current case" breadcrumbs for
//! abort-class failures.
use std::cell::RefCell;
use std::collections::{BTreeMap, HashSet};
use std::fmt::Debug;
use std::fs;
use std::hash::{Hash, Hasher};
use std::io::{Seek, SeekFrom, Write};
use std::panic::{catch_unwind, AssertUnwindSafe};
use std::path::{Path, PathBuf};

use proptest::strategy::Strategy;
use proptest::test_runner::{Config, RngSeed, TestCaseError, TestError, TestRunner};
use serde::{de::DeserializeOwned, Deserialize, Serialize};
use serde_json::Value;

pub const NSHARDS: u32 = 16;
pub const ROUNDS: u32 = 4;
pub const DEFAULT_SEED: u64 = 20261004;
pub const MAX_HASHES_PER_SHARD: usize = 3_000_000;

#[derive(Clone, Copy, PartialEq, Eq, Debug)]
pub enum Tier {
    Quick,
    Thorough,
}

impl Tier {
    pub fn parse(s: &str) -> Option<Tier> {
        match s {
            "quick" => Some(Tier::Quick),
            "thorough" => Some(Tier::Thorough),
            _ => None,
        }
    }
    pub fn name(self) -> &'static str {
        match self {
            Tier::Quick => "quick",
            Tier::Thorough => "thorough",
        }
    }
    /// Picks the per-tier value.
    pub fn pick<T>(self, quick: T, thorough: T) -> T {
        match self {
            Tier::Quick => quick,
            Tier::Thorough => thorough,
        }
    }
}

/// A failed oracle. `sig` identifies the failing site precisely enough that a known finding can be
/// keyed on it without hiding different violations of the same property.
#[derive(Clone, Debug)]
pub struct Failure {
    pub sig: String,
    pub detail: String,
}

impl Failure {
    pub fn new(sig: impl Into<String>, detail: impl Into<String>) -> Self {
        Failure {
            sig: sig.into(),
            detail: detail.into(),
        }
    }
}

pub type CheckResult = Result<(), Failure>;

#[macro_export]
macro_rules! fail {
    ($sig:expr, $($arg:tt)*) => {
        return Err($crate::engine::Failure::new($sig, format!($($arg)*)))
    };
}

#[macro_export]
macro_rules! ensure {
    ($cond:expr, $sig:expr, $($arg:tt)*) => {
        if !($cond) {
            return Err($crate::engine::Failure::new($sig, format!($($arg)*)));
        }
    };
}

/// Per-case observations: classes for the generator histograms and the non-triviality verdict.
#[derive(Default)]
pub struct Obs {
    pub nontrivial: bool,
    pub classes: Vec<String>,
    /// Additional evaluations performed inside this case (e.g. enumerated fault offsets).
    pub extra_evals: u64,
}

impl Obs {
    pub fn class(&mut self, name: impl Into<String>) {
        self.classes.push(name.into());
    }
    pub fn class_if(&mut self, cond: bool, name: &str) {
        if cond {
            self.classes.push(name.to_string());
        }
    }
    pub fn nontrivial(&mut self) {
        self.nontrivial = true;
    }
}

#[derive(Serialize, Deserialize, Clone, Debug)]
pub struct ViolationRec {
    pub oracle: String,
    pub sig: String,
    pub detail: String,
    pub replay: String,
}

#[derive(Serialize, Deserialize, Clone, Debug, Default)]
pub struct ShardResult {
    pub shard: u32,
    pub profile: String,
    pub evals: u64,
    pub nontrivial_cases: u64,
    pub counters: BTreeMap<String, u64>,
    pub samples: Vec<Value>,
    pub violations: Vec<ViolationRec>,
    pub known_hits: BTreeMap<String, u64>,
    pub notes: Vec<String>,
    pub exhaustive_parts: Vec<String>,
    pub units_done: u32,
    pub generator_defects: Vec<String>,
    /// Non-trivial cases that are distinct by construction (enumerations), counted instead of
    /// hashed.
    #[serde(default)]
    pub distinct_by_construction: u64,
    /// The per-shard hash set hit its cap: distinct_nontrivial is a lower bound.
    #[serde(default)]
    pub distinct_saturated: bool,
}

#[derive(Serialize, Deserialize, Clone, Debug)]
pub struct KnownFinding {
    pub property: String,
    pub status: String, // "open" | "fixed"
    #[serde(default)]
    pub signature: String,
    #[serde(default)]
    pub commit: String,
    pub what: String,
    #[serde(default)]
    pub record: String,
}

#[derive(Serialize, Deserialize, Clone, Debug, Default)]
pub struct KnownFindings {
    pub findings: Vec<KnownFinding>,
}

pub fn verif_dir() -> PathBuf {
    std::env::var_os("VERIF_DIR")
        .map(PathBuf::from)
        .unwrap_or_else(|| PathBuf::from("/verif"))
}

/// Where replay files of violations found at run time go (overridable for runs against scratch
/// copies of the repository, so that they do not mix with runs against /repo).
pub fn replay_dir() -> PathBuf {
    std::env::var_os("FV_REPLAY_DIR")
        .map(PathBuf::from)
        .unwrap_or_else(|| verif_dir().join("replays"))
}

pub fn evidence_dir() -> PathBuf {
    std::env::var_os("FV_EVIDENCE_DIR")
        .map(PathBuf::from)
        .unwrap_or_else(|| verif_dir().join("evidence"))
}

pub fn load_known() -> KnownFindings {
    let p = verif_dir().join("known_findings.json");
    match fs::read_to_string(&p) {
        Ok(s) => serde_json::from_str(&s).unwrap_or_default(),
        Err(_) => KnownFindings::default(),
    }
}

pub fn hash64<T: Hash + ?Sized>(t: &T) -> u64 {
    // DefaultHasher::new() uses fixed keys, so this is stable for a given toolchain.
    let mut h = std::collections::hash_map::DefaultHasher::new();
    0x5eed_f1055abu64.hash(&mut h);
    t.hash(&mut h);
    h.finish()
}

/// The file format of replay files and of the "current case" breadcrumb.
#[derive(Serialize, Deserialize, Clone, Debug)]
pub struct ReplayFile {
    pub property: String,
    pub oracle: String,
    #[serde(default)]
    pub sig: String,
    #[serde(default)]
    pub detail: String,
    pub case: Value,
}

struct Inner {
    res: ShardResult,
    hashes: HashSet<u64>,
    frozen: bool,
    unit: u32,
    sample_count: BTreeMap<String, u32>,
}

pub struct Ctx {
    pub prop: &'static str,
    pub tier: Tier,
    pub seed: u64,
    pub shard: u32,
    pub profile: String,
    pub start_unit: u32,
    pub out_dir: PathBuf,
    known_open: Vec<KnownFinding>,
    cur_file: RefCell<Option<fs::File>>,
    inner: RefCell<Inner>,
    /// When replaying, no breadcrumbs / accounting are needed.
    pub replaying: bool,
}

impl Ctx {
    pub fn new(
        prop: &'static str,
        tier: Tier,
        seed: u64,
        shard: u32,
        profile: &str,
        start_unit: u32,
        out_dir: PathBuf,
    ) -> Ctx {
        let known_open = load_known()
            .findings
            .into_iter()
            .filter(|k| k.status == "open" && k.property == prop)
            .collect();
        let cur_file = fs::OpenOptions::new()
            .create(true)
            .write(true)
            .truncate(true)
            .open(out_dir.join(format!("shard-{shard}.cur")))
            .ok();
        Ctx {
            prop,
            tier,
            seed,
            shard,
            profile: profile.to_string(),
            start_unit,
            out_dir,
            known_open,
            cur_file: RefCell::new(cur_file),
            inner: RefCell::new(Inner {
                res: ShardResult {
                    shard,
                    profile: profile.to_string(),
                    ..Default::default()
                },
                hashes: HashSet::new(),
                frozen: false,
                unit: 0,
                sample_count: BTreeMap::new(),
            }),
            replaying: false,
        }
    }

    /// Splits a total case budget over the shards (rounded up, at least 1 per round).
    pub fn share(&self, total: u64) -> u32 {
        // The thorough totals written in the property modules date from when the oracles were
        // cheaper; a full thorough pass over 16 properties has to stay within a few hours, so a
        // quarter of them is run (still 8..25 x the quick tier).
        let total = if self.tier == Tier::Thorough { (total + 3) / 4 } else { total };
        let per = (total + NSHARDS as u64 - 1) / NSHARDS as u64;
        per.max(ROUNDS as u64) as u32
    }

    pub fn count(&self, name: &str, n: u64) {
        let mut i = self.inner.borrow_mut();
        if !i.frozen {
            *i.res.counters.entry(name.to_string()).or_insert(0) += n;
        }
    }

    pub fn note(&self, s: impl Into<String>) {
        self.inner.borrow_mut().res.notes.push(s.into());
    }

    pub fn exhaustive_part(&self, s: impl Into<String>) {
        self.inner.borrow_mut().res.exhaustive_parts.push(s.into());
    }

    pub fn generator_defect(&self, s: impl Into<String>) {
        self.inner.borrow_mut().res.generator_defects.push(s.into());
    }

    fn known_match(&self, sig: &str) -> Option<&KnownFinding> {
        self.known_open.iter().find(|k| k.signature == sig)
    }

    fn breadcrumb(&self, oracle: &str, unit: u32, case_json: &str) {
        if self.replaying {
            return;
        }
        if let Some(f) = self.cur_file.borrow_mut().as_mut() {
            let _ = f.seek(SeekFrom::Start(0));
            let s = format!(
                "{{\"unit\":{},\"property\":\"{}\",\"oracle\":\"{}\",\"case\":{}}}\n",
                unit, self.prop, oracle, case_json
            );
            let _ = f.write_all(s.as_bytes());
            let _ = f.set_len(s.len() as u64);
        }
    }

    fn arm_watchdog(&self) {
        arm_cpu_watchdog(CASE_CPU_SECONDS);
    }

    /// Accounts one executed case. Returns the failure unless it is a listed open finding.
    fn account(
        &self,
        oracle: &str,
        case_json: &str,
        obs: Obs,
        result: CheckResult,
    ) -> CheckResult {
        let mut i = self.inner.borrow_mut();
        if !i.frozen {
            i.res.evals += 1 + obs.extra_evals;
            for c in &obs.classes {
                *i.res.counters.entry(format!("{oracle}/{c}")).or_insert(0) += 1;
            }
            if obs.nontrivial {
                i.res.nontrivial_cases += 1;
                // The set is capped per shard; beyond the cap the distinct count is a lower bound
                // (reported as such in the evidence).
                if i.hashes.len() < MAX_HASHES_PER_SHARD {
                    i.hashes.insert(hash64(&(oracle, case_json)));
                } else {
                    i.res.distinct_saturated = true;
                }
                let n = i.sample_count.entry(oracle.to_string()).or_insert(0);
                if *n < 2 && case_json.len() < 6000 {
                    *n += 1;
                    if let Ok(v) = serde_json::from_str::<Value>(case_json) {
                        i.res.samples.push(serde_json::json!({"oracle": oracle, "case": v}));
                    }
                }
            }
        }
        match result {
            Ok(()) => Ok(()),
            Err(f) => {
                if self.known_match(&f.sig).is_some() {
                    if !i.frozen {
                        *i.res.known_hits.entry(f.sig.clone()).or_insert(0) += 1;
                    }
                    Ok(())
                } else {
                    Err(f)
                }
            }
        }
    }

    fn write_violation(&self, oracle: &str, case: Value, f: &Failure) {
        let file = ReplayFile {
            property: self.prop.to_string(),
            oracle: oracle.to_string(),
            sig: f.sig.clone(),
            detail: f.detail.clone(),
            case,
        };
        let text = serde_json::to_string_pretty(&file).unwrap();
        let dir = replay_dir();
        let _ = fs::create_dir_all(&dir);
        let name = format!("{}-{}-{:016x}.json", self.prop, oracle, hash64(&text));
        let path = dir.join(name);
        let _ = fs::write(&path, text);
        self.inner.borrow_mut().res.violations.push(ViolationRec {
            oracle: oracle.to_string(),
            sig: f.sig.clone(),
            detail: f.detail.clone(),
            replay: path.to_string_lossy().into_owned(),
        });
    }

    /// Runs `cases` generated cases (split in ROUNDS rounds so that a worker that died can be
    /// restarted behind the round it died in) through `check`, shrinking the first failure.
    pub fn run_cases<C, S>(
        &self,
        oracle: &'static str,
        cases: u32,
        strat: S,
        check: impl Fn(&C, &mut Obs) -> CheckResult,
    ) where
        C: Serialize + Debug + Clone,
        S: Strategy<Value = C>,
    {
        let per_round = (cases + ROUNDS - 1) / ROUNDS;
        for round in 0..ROUNDS {
            let unit = {
                let mut i = self.inner.borrow_mut();
                let u = i.unit;
                i.unit += 1;
                u
            };
            if unit < self.start_unit {
                continue;
            }
            let rng_seed = hash64(&(self.seed, self.prop, oracle, self.shard, round));
            let config = Config {
                cases: per_round,
                failure_persistence: None,
                rng_seed: RngSeed::Fixed(rng_seed),
                max_shrink_iters: 4000,
                // (cases of tens of megabytes take seconds each: stop shrinking after a minute;
                // this only affects how small the reported counterexample is)
                max_shrink_time: 60_000,
                max_global_rejects: 1 << 20,
                ..Config::default()
            };
            let mut runner = TestRunner::new(config);
            let last_failure: RefCell<Option<Failure>> = RefCell::new(None);
            let result = runner.run(&strat, |case| {
                let case_json = serde_json::to_string(&case).unwrap_or_else(|_| "null".into());
                self.breadcrumb(oracle, unit, &case_json);
                self.arm_watchdog();
                let mut obs = Obs::default();
                let r = match catch_unwind(AssertUnwindSafe(|| check(&case, &mut obs))) {
                    Ok(r) => r,
                    Err(p) => Err(Failure::new(
                        format!("{}:{}:harness-panic", self.prop, oracle),
                        format!("panic outside the guarded call: {}", panic_message(&p)),
                    )),
                };
                disarm_cpu_watchdog();
                match self.account(oracle, &case_json, obs, r) {
                    Ok(()) => Ok(()),
                    Err(f) => {
                        self.inner.borrow_mut().frozen = true;
                        let msg = f.detail.clone();
                        *last_failure.borrow_mut() = Some(f);
                        Err(TestCaseError::fail(msg))
                    }
                }
            });
            self.inner.borrow_mut().frozen = false;
            match result {
                Ok(()) => {}
                Err(TestError::Fail(_, minimal)) => {
                    // Re-run the minimal case to get its own signature/detail.
                    let mut obs = Obs::default();
                    let f = match catch_unwind(AssertUnwindSafe(|| check(&minimal, &mut obs))) {
                        Ok(Err(f)) => f,
                        Ok(Ok(())) => last_failure.borrow().clone().unwrap_or_else(|| {
                            Failure::new("unstable", "failure did not reproduce on the minimal case")
                        }),
                        Err(p) => Failure::new(
                            format!("{}:{}:harness-panic", self.prop, oracle),
                            format!("panic outside the guarded call: {}", panic_message(&p)),
                        ),
                    };
                    let v = serde_json::to_value(&minimal).unwrap_or(Value::Null);
                    self.write_violation(oracle, v, &f);
                    // One violation per oracle is enough; remaining rounds are skipped.
                    let mut i = self.inner.borrow_mut();
                    i.unit += ROUNDS - 1 - round;
                    i.res.units_done = i.unit;
                    return;
                }
                Err(TestError::Abort(reason)) => {
                    self.generator_defect(format!("{oracle}: proptest aborted: {reason}"));
                }
            }
            self.inner.borrow_mut().res.units_done = unit + 1;
        }
    }

    /// Runs one explicitly constructed case (enumerations, corpus replays). Returns true when the
    /// case passed (or is a known finding).
    pub fn run_one<C>(
        &self,
        oracle: &'static str,
        case: &C,
        check: impl Fn(&C, &mut Obs) -> CheckResult,
    ) -> bool
    where
        C: Serialize + Debug + Clone,
    {
        let case_json = serde_json::to_string(case).unwrap_or_else(|_| "null".into());
        self.breadcrumb(oracle, self.inner.borrow().unit, &case_json);
        self.arm_watchdog();
        let mut obs = Obs::default();
        let r = match catch_unwind(AssertUnwindSafe(|| check(case, &mut obs))) {
            Ok(r) => r,
            Err(p) => Err(Failure::new(
                format!("{}:{}:harness-panic", self.prop, oracle),
                format!("panic outside the guarded call: {}", panic_message(&p)),
            )),
        };
        disarm_cpu_watchdog();
        match self.account(oracle, &case_json, obs, r) {
            Ok(()) => true,
            Err(f) => {
                let v = serde_json::to_value(case).unwrap_or(Value::Null);
                self.write_violation(oracle, v, &f);
                false
            }
        }
    }

    /// Re-executes one committed regression case from /verif/corpus.
    pub fn corpus_case(
        &self,
        rf: &ReplayFile,
        path: &Path,
        replay: fn(&str, &Value) -> Option<CheckResult>,
    ) {
        let case_json = serde_json::to_string(&rf.case).unwrap_or_else(|_| "null".into());
        let oracle = rf.oracle.clone();
        self.breadcrumb(&oracle, self.inner.borrow().unit, &case_json);
        self.arm_watchdog();
        let r = catch_unwind(AssertUnwindSafe(|| replay(&oracle, &rf.case)));
        disarm_cpu_watchdog();
        let r = match r {
            Ok(Some(r)) => r,
            Ok(None) => {
                self.generator_defect(format!(
                    "corpus file {} names unknown oracle {}",
                    path.display(),
                    oracle
                ));
                return;
            }
            Err(p) => Err(Failure::new(
                format!("{}:{}:harness-panic", self.prop, oracle),
                format!("panic outside the guarded call: {}", panic_message(&p)),
            )),
        };
        let mut i = self.inner.borrow_mut();
        i.res.evals += 1;
        *i.res.counters.entry("corpus/replayed".to_string()).or_insert(0) += 1;
        if let Err(f) = r {
            if self.known_match(&f.sig).is_some() {
                *i.res.known_hits.entry(f.sig.clone()).or_insert(0) += 1;
            } else {
                i.res.violations.push(ViolationRec {
                    oracle,
                    sig: f.sig,
                    detail: f.detail,
                    replay: path.to_string_lossy().into_owned(),
                });
            }
        }
    }

    /// Cheap accounting for enumerations that evaluate millions of tiny cases: no JSON, no
    /// breadcrumb. `key` identifies the case for the distinct count.
    pub fn tally(&self, evals: u64, nontrivial_keys: impl IntoIterator<Item = u64>) {
        let mut i = self.inner.borrow_mut();
        i.res.evals += evals;
        for k in nontrivial_keys {
            i.res.nontrivial_cases += 1;
            i.hashes.insert(k);
        }
    }

    /// Accounting for enumerated cases that are distinct by construction.
    pub fn tally_enumerated(&self, evals: u64, nontrivial: u64) {
        let mut i = self.inner.borrow_mut();
        i.res.evals += evals;
        i.res.nontrivial_cases += nontrivial;
        i.res.distinct_by_construction += nontrivial;
    }

    pub fn add_sample(&self, v: Value) {
        let mut i = self.inner.borrow_mut();
        if i.res.samples.len() < 12 {
            i.res.samples.push(v);
        }
    }

    pub fn violation_count(&self) -> usize {
        self.inner.borrow().res.violations.len()
    }

    /// Writes the shard result and the hash set.
    pub fn finish(&self) {
        let i = self.inner.borrow();
        let p = self.out_dir.join(format!("shard-{}.json", self.shard));
        let _ = fs::write(&p, serde_json::to_string(&i.res).unwrap());
        let mut bytes = Vec::with_capacity(i.hashes.len() * 8);
        for h in &i.hashes {
            bytes.extend_from_slice(&h.to_le_bytes());
        }
        let _ = fs::write(self.out_dir.join(format!("shard-{}.hashes", self.shard)), bytes);
    }

    pub fn result_snapshot(&self) -> ShardResult {
        self.inner.borrow().res.clone()
    }
}

pub fn panic_message(p: &Box<dyn std::any::Any + Send>) -> String {
    if let Some(s) = p.downcast_ref::<&str>() {
        s.to_string()
    } else if let Some(s) = p.downcast_ref::<String>() {
        s.clone()
    } else {
        "<non-string panic payload>".to_string()
    }
}

/// CPU seconds one case may burn before the worker is killed by SIGVTALRM. Normal cases take
/// micro- to milliseconds; this is four to seven orders of magnitude above that.
pub const CASE_CPU_SECONDS: i64 = 60;

pub fn arm_cpu_watchdog(seconds: i64) {
    let t = libc::itimerval {
        it_interval: libc::timeval {
            tv_sec: 0,
            tv_usec: 0,
        },
        it_value: libc::timeval {
            tv_sec: seconds,
            tv_usec: 0,
        },
    };
    unsafe {
        libc::setitimer(libc::ITIMER_VIRTUAL, &t, std::ptr::null_mut());
    }
}

pub fn disarm_cpu_watchdog() {
    arm_cpu_watchdog(0);
}

/// Silences the default panic message; expected panics are caught and reported as values.
pub fn silence_panics() {
    std::panic::set_hook(Box::new(|_| {}));
}

thread_local! {
    static LAST_PANIC_LOC: RefCell<String> = RefCell::new(String::new());
}

/// Installs a hook that records the panic location (file:line) for signatures.
pub fn record_panic_locations() {
    std::panic::set_hook(Box::new(|info| {
        let loc = info
            .location()
            .map(|l| format!("{}:{}", l.file(), l.line()))
            .unwrap_or_default();
        if std::env::var_os("FV_PANIC_TRACE").is_some() {
            eprintln!("panic: {info}");
        }
        LAST_PANIC_LOC.with(|c| *c.borrow_mut() = loc);
    }));
}

pub fn last_panic_location() -> String {
    LAST_PANIC_LOC.with(|c| c.borrow().clone())
}

pub fn replay_from_file<C: DeserializeOwned>(v: &Value) -> Result<C, String> {
    serde_json::from_value(v.clone()).map_err(|e| format!("cannot decode case: {e}"))
}

pub fn read_replay(path: &Path) -> Result<ReplayFile, String> {
    let s = fs::read_to_string(path).map_err(|e| format!("{}: {e}", path.display()))?;
    serde_json::from_str(&s).map_err(|e| format!("{}: {e}", path.display()))
}

/// Serde helper: byte strings as lowercase hex.
pub mod hexbytes {
    use serde::{Deserialize, Deserializer, Serializer};

    pub fn to_hex(b: &[u8]) -> String {
        let mut s = String::with_capacity(b.len() * 2);
        for x in b {
            s.push(char::from_digit((x >> 4) as u32, 16).unwrap());
            s.push(char::from_digit((x & 15) as u32, 16).unwrap());
        }
        s
    }

    pub fn from_hex(s: &str) -> Option<Vec<u8>> {
        if s.len() % 2 != 0 {
            return None;
        }
        let b = s.as_bytes();
        let mut v = Vec::with_capacity(s.len() / 2);
        for i in (0..b.len()).step_by(2) {
            let h = (b[i] as char).to_digit(16)?;
            let l = (b[i + 1] as char).to_digit(16)?;
            v.push((h * 16 + l) as u8);
        }
        Some(v)
    }

    pub fn serialize<S: Serializer>(b: &Vec<u8>, s: S) -> Result<S::Ok, S::Error> {
        s.serialize_str(&to_hex(b))
    }

    pub fn deserialize<'de, D: Deserializer<'de>>(d: D) -> Result<Vec<u8>, D::Error> {
        let s = String::deserialize(d)?;
        from_hex(&s).ok_or_else(|| serde::de::Error::custom("bad hex"))
    }
}

/// A printable rendering of bytes for detail messages.
pub fn show_bytes(b: &[u8]) -> String {
    let mut s = String::new();
    for &c in b.iter().take(200) {
        match c {
            b'\n' => s.push_str("\\n"),
            b'\r' => s.push_str("\\r"),
            b'\t' => s.push_str("\\t"),
            b'\\' => s.push_str("\\\\"),
            0x20..=0x7e => s.push(c as char),
            _ => s.push_str(&format!("\\x{:02x}", c)),
        }
    }
    if b.len() > 200 {
        s.push_str(&format!("...(+{} bytes)", b.len() - 200));
    }
    s
}

/// Runs `f` on a thread with a 2 MiB stack (the default of `std::thread::spawn` and of the test
/// harness, i.e. what a parser typically gets); used by the scale oracles. A panic is passed on.
pub fn on_small_stack<R: Send>(f: impl FnOnce() -> R + Send) -> R {
    std::thread::scope(|s| {
        let h = std::thread::Builder::new()
            .stack_size(2 << 20)
            .spawn_scoped(s, f)
            .expect("spawn scale thread");
        match h.join() {
            Ok(r) => r,
            Err(p) => std::panic::resume_unwind(p),
        }
    })
}

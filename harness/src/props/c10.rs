//! C10 — streaming uses memory bounded by chunk size and largest item, not input size.
use std::cell::RefCell;
use std::io::{self, Read};
use std::rc::Rc;

use flussab::DeferredReader;
use proptest::prelude::*;
use serde::{Deserialize, Serialize};
use serde_json::Value;

use super::PropDef;
use crate::alloc;
use crate::drivers::{run_on_init, run_on_reader, Final, ParserId, Spec};
use crate::engine::{replay_from_file, CheckResult, Ctx, Failure, Obs};
use crate::fail;
use crate::source::SrcLog;

pub fn def() -> PropDef {
    PropDef {
        id: "C10",
        level: "exploration",
        profiles: &["fast"],
        abort_is_violation: true,
        rule: "configuration tuples (streaming parser in {cnf, wcnf, gcnf, btor2, aag section reader, aig section \
               reader}, chunk size in {1, 7, 64, 4096, 16384 (default), 1 MiB}, read size in {1, 13, one line, \
               chunk, unlimited}, maximal item size in {64 B, 1 KiB, 64 KiB}, content seed) drive an on-the-fly \
               generated stream (never materialised; DIMACS streams come in three shapes: clauses with occasional \
               comments, a header whose declared clause count is reached after 100 clauses followed only by comment \
               and blank lines, one clause spread over the whole stream with comment lines in between, fixed-width 16-byte clause lines behind a 15-byte comment so that power-of-two reads always end inside a token, clauses with a run of blank lines of twice the bound after every 4000 items (also for BTOR2); BTOR2 streams optionally end with a malformed justice line declaring 6*10^7 conditions, binary AIGER streams optionally with a multi-megabyte run of continuation bytes in place of the last gate or with twice as many gates as the header declares (whose bytes avoid white space); the reader is constructed by from_read or from_buf_reader (capacities 0..4 MiB), its chunk size configured once or twice; the AIGER section readers also run in skip mode, where all but the first gate are left to symbols() to pass over; one configuration in six drives the DeferredReader directly - request_more/advance, request(k)/advance(k), or byte look-ahead to the next LF - instead of a parser) of N bytes with N >= 64 x bound through the parser while a \
               counting global allocator records the peak live heap. Oracle: peak <= 16 x chunk + 16 x max_item + \
               64 KiB, and the parse ends cleanly. Non-trivial: N >= 64 x bound and items of the maximal size \
               occurred (every 500th item is padded to it). evaluations = configurations run.",
        assumptions: &[
            "the constants 16/16/64 KiB cover the documented buffer policy (window of up to ~3 chunks plus the look-ahead, doubled by Vec growth, old+new alive during a realloc) with a factor ~2 spare; a buffer that grows with the stream exceeds any constant because N is 64 x the bound",
            "quick tier caps N at 48 MiB per configuration (so the 1 MiB chunk is only reached by the thorough tier)",
        ],
        exhaustive: |_| false,
        run,
        replay,
    }
}

#[derive(Serialize, Deserialize, Clone, Copy, Debug, PartialEq, Eq, Hash)]
pub enum ReadSize {
    One,
    Thirteen,
    Line,
    Chunk,
    Unlimited,
}

#[derive(Serialize, Deserialize, Clone, Debug, PartialEq, Eq, Hash)]
pub struct Config {
    pub parser: ParserId,
    /// None = the reader's default (16 KiB).
    pub chunk: Option<usize>,
    pub read: ReadSize,
    pub max_item: usize,
    pub seed: u64,
    /// Stream length in bytes (approximate; the stream ends at an item boundary).
    pub n: u64,
    /// DIMACS only. 0: clauses (with an occasional comment). 1: a header declaring 100 clauses,
    /// those clauses, then only comment and blank lines. 2: one clause whose literals are spread
    /// over the whole stream with comment lines in between.
    #[serde(default)]
    pub shape: u8,
    /// AIGER section readers only: read the first entry of every section and let the section
    /// transition functions skip the rest.
    #[serde(default)]
    pub skip: bool,
    /// Not 0: no parser; the reader is driven directly over a shape-0 CNF stream.
    /// 1: `request_more()` then `advance(buf_len())`; 2: `request(k)` then `advance(k)` with
    /// generated k; 3: look for the next LF with `request_byte_at_offset`, advance past it.
    #[serde(default)]
    pub direct: u8,
    /// `set_chunk_size(pre_chunk)` is called before the chunk size proper is configured (a caller
    /// that lowers or raises a previously configured size; nothing is read in between).
    #[serde(default)]
    pub pre_chunk: Option<usize>,
    /// Construct with `from_buf_reader` on a new BufReader of this capacity (the heap is measured
    /// from the moment the reader exists: the BufReader's own buffer is gone by then).
    #[serde(default)]
    pub bufreader: Option<usize>,
}

fn mix(seed: u64, i: u64) -> u64 {
    let mut x = seed ^ i.wrapping_mul(0x9E37_79B9_7F4A_7C15);
    x ^= x >> 31;
    x = x.wrapping_mul(0xD6E8_FEB8_6659_FD93);
    x ^= x >> 29;
    x
}

/// Shape 4: (length of a blank run in items of 64 blank lines, period in items).
fn blank_runs(cfg: &Config) -> (u64, u64) {
    let run = ((2 * bound(cfg) as u64) / 90).clamp(16, 100_000);
    (run, 3 * run + 3000)
}

fn blank_item(cfg: &Config, idx: u64) -> bool {
    let (run, period) = blank_runs(cfg);
    idx % period >= period - run
}

/// Generates item `idx` of the stream (a pure function of the configuration).
fn item(cfg: &Config, idx: u64, out: &mut Vec<u8>) {
    use std::io::Write;
    out.clear();
    let r = mix(cfg.seed, idx);
    let big = idx % 500 == 7;
    if cfg.shape == 4 && blank_item(cfg, idx) {
        // part of a run of blank lines (each of them a tiny item); the run is about twice as long
        // as the bound
        for k in 0..64 {
            out.extend_from_slice(if (idx + k) % 5 == 0 { b"  \n" } else { b"\n" });
        }
        return;
    }
    let target = if big { cfg.max_item } else { 8 + (r % 40) as usize };
    match cfg.parser {
        ParserId::Cnf | ParserId::Wcnf | ParserId::Gcnf if cfg.shape == 1 && idx >= 100 => {
            // trailing comment / blank lines after the declared number of clauses
            if r % 11 == 0 {
                out.extend_from_slice(b"  \n");
            } else {
                out.extend_from_slice(b"c");
                while out.len() + 1 < target {
                    out.push(b' ' + (mix(r, out.len() as u64) % 90) as u8);
                }
                out.push(b'\n');
            }
        }
        ParserId::Cnf if cfg.shape == 3 => {
            // fixed-width lines: a 15-byte comment, then 16-byte clauses, so that with power-of-two
            // read sizes every read ends inside a token
            if idx == 0 {
                out.extend_from_slice(b"c 345678901234\n");
            } else {
                write!(out, "{:04} -{:04} {:02} 0\n", 1000 + r % 9000, 1000 + (r >> 16) % 9000, 10 + (r >> 32) % 90).unwrap();
            }
        }
        ParserId::Cnf | ParserId::Wcnf | ParserId::Gcnf if cfg.shape == 2 => {
            // one clause: literal lines with comment lines in between, terminated at the very end
            if idx == 0 {
                match cfg.parser {
                    ParserId::Wcnf => out.extend_from_slice(b"7 "),
                    ParserId::Gcnf => out.extend_from_slice(b"{3} "),
                    _ => {}
                }
                out.extend_from_slice(b"1 2\n");
            } else if idx % 1000 == 999 {
                write!(out, "{}\n", r % 999 + 1).unwrap();
            } else {
                out.extend_from_slice(b"c");
                while out.len() + 1 < target {
                    out.push(b'a' + (out.len() % 26) as u8);
                }
                out.push(b'\n');
            }
        }
        ParserId::Cnf | ParserId::Wcnf | ParserId::Gcnf => {
            match cfg.parser {
                ParserId::Wcnf => write!(out, "{} ", r % 1000).unwrap(),
                ParserId::Gcnf => write!(out, "{{{}}} ", r % 50).unwrap(),
                _ => {}
            }
            let mut k = 0u64;
            while out.len() + 8 < target {
                let v = mix(r, k) % 999 + 1;
                if mix(r, k) & 1 << 40 != 0 {
                    out.push(b'-');
                }
                write!(out, "{v} ").unwrap();
                k += 1;
            }
            out.extend_from_slice(b"0\n");
            if idx % 97 == 3 {
                out.extend_from_slice(b"c a comment line in between\n\n");
            }
        }
        ParserId::Log => {
            // comment lines, and (with ignore_unknown_lines) lines of solver statistics; shape 1:
            // statistics only, so that nothing but ignored lines passes for a long time
            if cfg.shape == 2 {
                // a complete model first, then value lines that go on and on (ignored with
                // ignore_unknown_lines once the assignment is finished)
                if idx == 0 {
                    out.extend_from_slice(b"s SATISFIABLE\nv 1 -2 0\n");
                    return;
                }
                out.extend_from_slice(b"v");
                let mut k = 0u64;
                while out.len() + 8 < target {
                    write!(out, " {}", mix(r, k) % 999 + 3).unwrap();
                    k += 1;
                }
                out.push(b'\n');
                return;
            }
            let unknown = cfg.skip && (cfg.shape == 1 || r % 3 == 0);
            out.extend_from_slice(if unknown { b"| restarts " } else { b"c " });
            while out.len() + 1 < target {
                out.push(b'0' + (mix(r, out.len() as u64) % 10) as u8);
            }
            out.push(b'\n');
        }
        ParserId::Btor2 => {
            write!(out, "{} add 1 {} {}", idx + 10, r % 1000 + 1, r % 77 + 1).unwrap();
            if r & 1 == 0 {
                write!(out, " sym{}", r % 1000).unwrap();
            }
            if big || r & 2 == 0 {
                out.extend_from_slice(b" ;");
                while out.len() + 1 < target {
                    out.push(b'a' + (out.len() % 26) as u8);
                }
            }
            out.push(b'\n');
        }
        ParserId::Aag => {
            let code = 2 * (idx + 1);
            write!(out, "{} {} {}\n", code, mix(r, 1) % code, mix(r, 2) % code).unwrap();
        }
        ParserId::Aig if cfg.shape == 2 => {
            // deltas that never are white space bytes (the surplus gates then form one long "word")
            out.push(if r & 1 == 0 || idx == 0 { 1 } else { 2 });
            out.push((r >> 1 & 1) as u8);
        }
        ParserId::Aig => {
            let code = 2 * (idx + 1);
            let d0 = 1 + mix(r, 1) % code.min(300);
            let in0 = code - d0;
            let d1 = mix(r, 2) % (in0 + 1).min(300);
            for mut v in [d0, d1] {
                loop {
                    let b = (v & 0x7f) as u8;
                    v >>= 7;
                    if v == 0 {
                        out.push(b);
                        break;
                    }
                    out.push(b | 0x80);
                }
            }
        }
        _ => {}
    }
}

struct Stream {
    cfg: Config,
    items: u64,
    idx: u64,
    cur: Vec<u8>,
    pos: usize,
    header: Option<Vec<u8>>,
    log: Rc<RefCell<SrcLog>>,
    /// Largest live heap seen at a read call once a megabyte has been delivered (steady state).
    live_max: Rc<std::cell::Cell<usize>>,
}

impl Stream {
    fn new(cfg: Config) -> (Stream, Rc<RefCell<SrcLog>>, u64) {
        // estimate the number of items for the byte budget from a sample
        let mut sample = 0u64;
        let mut buf = vec![];
        for i in 0..2000 {
            item(&cfg, i, &mut buf);
            sample += buf.len() as u64;
        }
        let avg = (sample / 2000).max(1);
        let items = (cfg.n / avg).max(10);
        let header = match (cfg.parser, cfg.shape) {
            (ParserId::Aag, _) => Some(format!("aag {items} 0 0 0 {items}\n").into_bytes()),
            (ParserId::Aig, 1) => Some(format!("aig {0} 0 0 0 {0}\n", items + 1).into_bytes()),
            // fewer gates declared than present: the surplus is where symbols/comment/EOF belong
            (ParserId::Aig, 2) => Some(format!("aig {0} 0 0 0 {0}\n", items / 2).into_bytes()),
            (ParserId::Aig, _) => Some(format!("aig {items} 0 0 0 {items}\n").into_bytes()),
            (ParserId::Cnf, 1) => Some(b"p cnf 60000000 100\n".to_vec()),
            (ParserId::Wcnf, 1) => Some(b"p wcnf 60000000 100 9\n".to_vec()),
            (ParserId::Gcnf, 1) => Some(b"p gcnf 60000000 100 60000000\n".to_vec()),
            _ => None,
        };
        let log = Rc::new(RefCell::new(SrcLog::default()));
        (
            Stream {
                cur: header.clone().unwrap_or_default(),
                cfg,
                items,
                idx: 0,
                pos: 0,
                header,
                log: log.clone(),
                live_max: Rc::new(std::cell::Cell::new(0)),
            },
            log,
            items,
        )
    }
}

impl Read for Stream {
    fn read(&mut self, buf: &mut [u8]) -> io::Result<usize> {
        let limit = match self.cfg.read {
            ReadSize::One => 1,
            ReadSize::Thirteen => 13,
            _ => buf.len(),
        }
        .min(buf.len());
        let mut n = 0;
        while n < limit {
            if self.pos == self.cur.len() {
                if self.idx == self.items && self.cfg.shape == 2 && self.cfg.parser.is_dimacs() {
                    // terminate the single clause
                    self.cur = b"0\n".to_vec();
                    self.pos = 0;
                    self.idx += 1;
                    continue;
                }
                if self.idx == self.items && self.cfg.parser == ParserId::Log {
                    self.cur = if self.cfg.shape == 2 { b"c end\n".to_vec() } else { b"s SATISFIABLE\nv 1 -2 0\n".to_vec() };
                    self.pos = 0;
                    self.idx += 1;
                    continue;
                }
                if self.idx == self.items && self.cfg.shape == 1 && self.cfg.parser == ParserId::Btor2 {
                    // a final justice line that declares far more conditions than it has
                    self.cur = b"5 justice 60000000 3\n".to_vec();
                    self.pos = 0;
                    self.idx += 1;
                    continue;
                }
                if self.idx >= self.items && self.cfg.shape == 1 && self.cfg.parser == ParserId::Aig {
                    // a damaged and-gate section: a long run of continuation bytes (the header
                    // declares one gate more than there are)
                    if (self.idx - self.items) * (64 << 10) >= self.cfg.n / 2 {
                        break;
                    }
                    self.cur = vec![0x80 | (self.idx as u8 & 0x7f); 64 << 10];
                    self.pos = 0;
                    self.idx += 1;
                    continue;
                }
                if self.idx >= self.items {
                    break;
                }
                let _ = &self.header;
                let cfg = self.cfg.clone();
                item(&cfg, self.idx, &mut self.cur);
                self.idx += 1;
                self.pos = 0;
                if n > 0 && self.cfg.read == ReadSize::Line {
                    break;
                }
            }
            let k = (limit - n).min(self.cur.len() - self.pos);
            buf[n..n + k].copy_from_slice(&self.cur[self.pos..self.pos + k]);
            self.pos += k;
            n += k;
            if self.cfg.read == ReadSize::Line && self.pos == self.cur.len() {
                break;
            }
        }
        let mut l = self.log.borrow_mut();
        l.calls += 1;
        l.delivered += n;
        if l.delivered > 1 << 20 {
            self.live_max.set(self.live_max.get().max(alloc::live_now()));
        }
        Ok(n)
    }
}

/// Builds the reader as configured; returns it with the allocation window opened once it exists.
fn make_reader(cfg: &Config, src: Stream) -> (DeferredReader<'static>, alloc::Window) {
    let mut reader = match cfg.bufreader {
        Some(cap) => DeferredReader::from_buf_reader(std::io::BufReader::with_capacity(cap, src)),
        None => DeferredReader::from_read(src),
    };
    let w = alloc::window();
    if let Some(p) = cfg.pre_chunk {
        reader.set_chunk_size(p);
    }
    if let Some(c) = cfg.chunk {
        reader.set_chunk_size(c);
    }
    (reader, w)
}

pub fn bound(cfg: &Config) -> usize {
    16 * cfg.chunk.unwrap_or(16 << 10) + 16 * cfg.max_item + (64 << 10)
}

pub fn check(cfg: &Config, obs: &mut Obs) -> CheckResult {
    if cfg.direct != 0 {
        return check_direct(cfg, obs);
    }
    let spec = Spec {
        parser: cfg.parser,
        lit: 3,
        // skip mode of the AIGER section readers / ignore_unknown_lines of the solver log
        flag: cfg.skip && matches!(cfg.parser, ParserId::Aag | ParserId::Aig | ParserId::Log),
    };
    let measured = alloc::installed();
    let (src, log, items) = Stream::new(cfg.clone());
    let live_max = src.live_max.clone();
    let base_live = alloc::live_now();
    // from_buf_reader of the parser itself when nothing else has to be configured on the reader
    let parser_ctor = cfg.bufreader.is_some() && cfg.chunk.is_none() && cfg.pre_chunk.is_none() && cfg.parser != ParserId::Log;
    let (t, w) = if parser_ctor {
        let br = std::io::BufReader::with_capacity(cfg.bufreader.unwrap_or(0), Box::new(src) as Box<dyn Read>);
        let w = alloc::window();
        (run_on_init(&spec, crate::source::Init::BufDyn(br), log.clone(), false), w)
    } else {
        let (reader, w) = make_reader(cfg, src);
        (run_on_reader(&spec, reader, log.clone(), false), w)
    };
    obs.class_if(parser_ctor, "parser-level-from_buf_reader");
    let peak = w.peak();
    let delivered = log.borrow().delivered;
    let b = bound(cfg);
    obs.class(format!("parser/{}", cfg.parser.name()));
    obs.class(format!("chunk/{}", cfg.chunk.map_or("default".to_string(), |c| c.to_string())));
    obs.class(format!("read/{:?}", cfg.read));
    obs.class(format!("max-item/{}", cfg.max_item));
    obs.extra_evals = 0;
    if delivered as u64 >= 64 * b as u64 && items > 600 {
        obs.nontrivial();
        obs.class("n>=64xbound");
    }
    obs.class_if(cfg.chunk.map_or(false, |c| c > 32 << 20) && delivered > 64 << 20, "cursor>64MiB-into-the-buffer");
    let p = cfg.parser.name();
    let malformed_tail = (matches!(cfg.parser, ParserId::Btor2 | ParserId::Aig) && cfg.shape == 1)
        || (cfg.parser == ParserId::Aig && cfg.shape == 2);
    obs.class_if(cfg.pre_chunk.is_some(), "chunk-size-configured-twice");
    obs.class_if(cfg.bufreader.is_some(), "from_buf_reader");
    obs.class_if(spec.flag && cfg.parser != ParserId::Log, "aiger-sections-skipped");
    obs.class_if(spec.flag && cfg.parser == ParserId::Log, "log-unknown-lines-ignored");
    obs.class_if(malformed_tail, "malformed-tail");
    if malformed_tail && !matches!(t.fin, Final::Syntax { .. }) {
        fail!(
            format!("C10:{p}:stream-rejected"),
            "{p}: the stream ends with a malformed justice line / a run of continuation bytes, expected a syntax error, got {}; config {:?}",
            t.fin.short(),
            cfg
        );
    }
    if !malformed_tail && t.fin != Final::End {
        fail!(
            format!("C10:{p}:stream-rejected"),
            "{p}: the generated stream was not parsed to a clean end: {} after {} items ({} bytes delivered); config {:?}",
            t.fin.short(),
            t.item_count,
            delivered,
            cfg
        );
    }
    let expect_items = match (cfg.parser.is_dimacs(), cfg.shape) {
        _ if cfg.parser == ParserId::Log => 1, // the log as a whole
        (true, 1) => 101, // header + the declared 100 clauses
        (true, 2) => 1,   // the one long clause
        (true, 3) => items - 1, // the first line is a comment
        (_, 4) => {
            // items that are part of a blank run return nothing
            let (run, period) = blank_runs(cfg);
            let full = items / period;
            let rest = (items % period).saturating_sub(period - run);
            items - full * run - rest
        }
        _ if spec.flag => 2,    // header and the first and gate; the rest is skipped by symbols()
        (_, 2) if cfg.parser == ParserId::Aig => items / 2 + 1, // the declared gates
        _ => items + if cfg.parser.is_aiger() { 1 } else { 0 },
    };
    obs.class(format!("shape/{}", cfg.shape));
    if t.item_count as u64 != expect_items {
        fail!(
            format!("C10:{p}:item-count"),
            "{p}: {} items were generated but {} were returned; config {:?}",
            expect_items,
            t.item_count,
            cfg
        );
    }
    // what is held in the steady state, counted from before the BufReader was created (a
    // BufReader that stays alive behind the parser is part of it)
    let held = live_max.get().saturating_sub(base_live);
    if measured && cfg.bufreader.is_some() && held > b {
        fail!(
            format!("C10:{p}:held-while-streaming"),
            "{p}: {} bytes are held while streaming (sampled at the source's read calls, counted from before the BufReader of capacity {:?} was created), bound {}; config {:?}",
            held,
            cfg.bufreader,
            b,
            cfg
        );
    }
    if measured && peak > b {
        fail!(
            format!("C10:{p}:memory"),
            "{p}: peak live heap {} bytes while streaming {} bytes ({} items) exceeds the bound {} = 16 x chunk {} + 16 x max item {} + 64 KiB; config {:?}",
            peak,
            delivered,
            items,
            b,
            cfg.chunk.unwrap_or(16 << 10),
            cfg.max_item,
            cfg
        );
    }
    Ok(())
}

/// The reader itself, driven the way a hand-written scanner would (no parser on top).
fn check_direct(cfg: &Config, obs: &mut Obs) -> CheckResult {
    let measured = alloc::installed();
    let (src, log, items) = Stream::new(cfg.clone());
    let (mut reader, w) = make_reader(cfg, src);
    let mut advanced = 0u64;
    let mut step = 0u64;
    match cfg.direct {
        1 => {
            while reader.request_more() {
                let n = reader.buf_len();
                reader.advance(n);
                advanced += n as u64;
            }
            let n = reader.buf_len();
            reader.advance(n);
            advanced += n as u64;
        }
        2 => loop {
            step += 1;
            let k = 1 + (mix(cfg.seed, step) % (2 * cfg.max_item as u64 + 1)) as usize;
            let got = reader.request(k).len();
            if got == 0 {
                break;
            }
            let n = got.min(k);
            reader.advance(n);
            advanced += n as u64;
        },
        4 => {
            // a short input and one request for far more than there is (an untrusted length
            // field): what is held depends on the data present, not on the number asked for
            let want = [1usize << 20, 64 << 20, 256 << 20, 1 << 40][(cfg.seed % 4) as usize];
            loop {
                let got = reader.request(want).len();
                if got == 0 {
                    break;
                }
                reader.advance(got);
                advanced += got as u64;
            }
        }
        _ => loop {
            let mut off = 0;
            let end = loop {
                match reader.request_byte_at_offset(off) {
                    None => break off,
                    Some(b'\n') => break off + 1,
                    Some(_) => off += 1,
                }
            };
            if end == 0 {
                break;
            }
            reader.advance(end);
            advanced += end as u64;
        },
    }
    let clean = reader.check_io_error().is_ok() && reader.is_at_end();
    let position = reader.position() as u64;
    drop(reader);
    let peak = w.peak();
    let delivered = log.borrow().delivered as u64;
    // mode 4 buffers the whole (short) input on purpose: the bound is in terms of the data that
    // exists (growth by doubling, old and new buffer alive during a move), not of the length asked for
    let b = bound(cfg) + if cfg.direct == 4 { 4 * delivered as usize } else { 0 };
    obs.class(format!("direct/{}", cfg.direct));
    obs.class(format!("chunk/{}", cfg.chunk.map_or("default".to_string(), |c| c.to_string())));
    obs.class(format!("read/{:?}", cfg.read));
    if (delivered >= 64 * b as u64 && items > 600) || cfg.direct == 4 {
        obs.nontrivial();
        obs.class("n>=64xbound");
    }
    if !clean || advanced != delivered || position != delivered {
        fail!(
            "C10:direct:stream-lost",
            "direct mode {}: {} bytes delivered, {} advanced over, position() = {}, clean end: {}; config {:?}",
            cfg.direct,
            delivered,
            advanced,
            position,
            clean,
            cfg
        );
    }
    if measured && peak > b {
        fail!(
            "C10:direct:memory",
            "reader driven directly (mode {}): peak live heap {} bytes while streaming {} bytes exceeds the bound {} = 16 x chunk {} + 16 x max item {} + 64 KiB; config {:?}",
            cfg.direct,
            peak,
            delivered,
            b,
            cfg.chunk.unwrap_or(16 << 10),
            cfg.max_item,
            cfg
        );
    }
    Ok(())
}

fn config_strategy(quick: bool) -> impl Strategy<Value = Config> {
    let parsers = vec![
        ParserId::Cnf,
        ParserId::Wcnf,
        ParserId::Gcnf,
        ParserId::Btor2,
        ParserId::Aag,
        ParserId::Aig,
        ParserId::Log,
    ];
    // (40 MiB: the cursor gets 80 MiB into the buffer before the first realign; the stream is
    // 100 MiB then, whatever the tier)
    let chunks = if quick {
        vec![Some(1usize), Some(7), Some(64), Some(4096), None, Some(1), Some(64), None, Some(40 << 20)]
    } else {
        vec![Some(1usize), Some(7), Some(64), Some(4096), None, Some(1 << 20), Some(1), Some(64), None, Some(40 << 20)]
    };
    (
        proptest::sample::select(parsers),
        proptest::sample::select(chunks),
        proptest::sample::select(vec![
            ReadSize::One,
            ReadSize::Thirteen,
            ReadSize::Line,
            ReadSize::Chunk,
            ReadSize::Unlimited,
        ]),
        proptest::sample::select(vec![64usize, 1 << 10, 64 << 10]),
        any::<u64>(),
        prop_oneof![4 => Just(0u8), 2 => Just(1u8), 2 => Just(2u8), 2 => Just(3u8), 3 => Just(4u8)],
        any::<bool>(),
        prop_oneof![10 => Just(0u8), 2 => 1u8..=3, 1 => Just(4u8)],
        prop_oneof![4 => Just(None), 1 => proptest::sample::select(vec![1usize << 30, 1 << 20, 3, 100_000]).prop_map(Some)],
        prop_oneof![2 => Just(None), 1 => proptest::sample::select(vec![0usize, 8192, 1 << 20, 2 << 20, 4 << 20]).prop_map(Some)],
        0u8..3,
    )
        .prop_map(move |(parser, chunk, read, max_item, seed, shape, skip, direct, pre_chunk, bufreader, plain)| {
            // two of three from_buf_reader configurations leave everything else at its default, so
            // that the parser's own from_buf_reader constructor is the entry point
            let (chunk, pre_chunk) = if bufreader.is_some() && plain != 0 { (None, None) } else { (chunk, pre_chunk) };
            let parser = if direct != 0 { ParserId::Cnf } else { parser };
            let max_item = if matches!(parser, ParserId::Aag | ParserId::Aig) { 64 } else { max_item };
            let mut cfg = Config {
                parser,
                chunk,
                read,
                max_item,
                seed,
                n: 0,
                skip: (skip || (parser == ParserId::Log && (shape == 1 || shape == 2))) && matches!(parser, ParserId::Aag | ParserId::Aig | ParserId::Log),
                direct,
                pre_chunk: if chunk.is_some() { pre_chunk } else { None },
                bufreader,
                shape: match (parser, shape) {
                    _ if direct != 0 => 0,
                    (ParserId::Log, 1) => 1,
                    (ParserId::Log, 2) => 2,
                    (ParserId::Log, _) => 0,
                    (ParserId::Btor2, 1) => 1,
                    (ParserId::Aig, 1) => 1,
                    (ParserId::Aig, 2) => 2,

                    (ParserId::Btor2, 4) if chunk != Some(40 << 20) => 4,
                    (p, 4) if p.is_dimacs() && chunk != Some(40 << 20) => 4,
                    (_, 4) => 0,
                    (ParserId::Cnf, s) => s,
                    (p, 3) if p.is_dimacs() => 0,
                    (p, s) if p.is_dimacs() => s,
                    _ => 0,
                },
            };
            let mut n = 64 * bound(&cfg) as u64 + (1 << 20);
            if direct == 4 {
                // (everything the source has is buffered at once here: keep it below the bound)
                n = 40 << 10;
            }
            if quick {
                n = n.min(48 << 20);
            }
            if chunk == Some(40 << 20) && direct != 4 {
                n = 100 << 20;
            }
            // byte-wise delivery is slow; keep it within budget
            if read == ReadSize::One && quick {
                n = n.min(24 << 20);
            }
            cfg.n = n;
            cfg
        })
}

fn run(ctx: &Ctx) {
    let quick = ctx.tier == crate::engine::Tier::Quick;
    let n = ctx.share(ctx.tier.pick(256, 1_600));
    ctx.run_cases("stream", n, config_strategy(quick), check);
}

fn replay(oracle: &str, v: &Value) -> Option<CheckResult> {
    match oracle {
        "stream" => Some(match replay_from_file::<Config>(v) {
            Ok(c) => check(&c, &mut Obs::default()),
            Err(e) => Err(Failure::new("C10:decode", e)),
        }),
        _ => None,
    }
}

//! C15 — parser combinators implement exact three-way choice semantics.
//!
//! The domain (combinator x input case x continuation result) is finite and enumerated completely;
//! proptest only draws payload values. The reference table below is written from the doc comments
//! of `flussab::parser`, not from its match arms.
use std::cell::Cell;

use flussab::{Parsed, ResultExt};
use proptest::prelude::*;
use serde::{Deserialize, Serialize};
use serde_json::Value;

use super::PropDef;
use crate::engine::{replay_from_file, CheckResult, Ctx, Obs, Tier};
use crate::{ensure, fail};

pub fn def() -> PropDef {
    PropDef {
        id: "C15",
        level: "exploration",
        profiles: &["checked", "fast"],
        abort_is_violation: false,
        rule: "complete enumeration of (combinator, input case, continuation result) for the 15 \
               combinators with several payload triples in 16 evaluation contexts (plain or inside a \
               destructor while the thread unwinds; i64 payloads with capturing closures or zero-sized \
               payloads with stateless fn items counted through a thread-local; plain or inside 1500 active \
               continuations of the combinators; at one stack position or shallow / 4 MiB deeper / shallow on one \
               thread), once more while 300 threads are parked inside continuations, 2^32+1000 evaluations of each closure-taking \
               Parsed combinator on one thread, 160-fold nesting around 64 KiB payloads, plus proptest-drawn payloads; a case is \
               non-trivial when the combinator takes a closure, so that its (non-)invocation and \
               argument are observable; distinct = distinct (combinator, \
               input, continuation, payloads)",
        assumptions: &[
            "the reference table in props/c15.rs transcribes the doc comments of flussab::parser correctly",
        ],
        exhaustive: |_| true,
        run,
        replay,
    }
}

pub const COMBINATORS: [&str; 15] = [
    "or_parse",
    "or_always_parse",
    "or_give_up",
    "optional",
    "matches",
    "and_then",
    "and_also",
    "and_do",
    "map",
    "map_err",
    "err_into",
    "from_result",
    "result_err_into",
    "result_and_also",
    "result_and_do",
];

/// 0 = fallthrough, 1 = success, 2 = failure.
#[derive(Serialize, Deserialize, Clone, Debug, PartialEq, Eq, Hash)]
pub struct Case {
    pub comb: usize,
    pub input: u8,
    pub cont: u8,
    pub a: i64,
    pub b: i64,
    pub c: i64,
    /// Evaluation context. Bit 0: the combinator is evaluated inside a destructor that runs
    /// because the thread is unwinding. Bit 1: value and error types are zero-sized and every
    /// closure is a stateless `fn` item (observed through thread-local counters).
    #[serde(default)]
    pub ctx: u8,
}

#[derive(Debug, PartialEq, Eq, Clone)]
enum Out {
    Fall,
    Ok(i64),
    Err(i64),
    /// `Result<Option<T>, E>` / `Result<bool, E>` shapes.
    OkNone,
    OkSome(i64),
    OkBool(bool),
    /// Error converted into the second error type.
    Err2(i64),
}

#[derive(Debug, PartialEq, Eq, Clone)]
struct Observed {
    out: Out,
    calls: u32,
    /// The argument the closure received (if it takes one).
    arg: Option<i64>,
}

#[derive(Debug, PartialEq, Eq, Clone, Copy)]
struct E2(i64);
impl From<i64> for E2 {
    fn from(v: i64) -> Self {
        E2(v.wrapping_add(1_000_000))
    }
}

fn valid_inputs(comb: usize) -> &'static [u8] {
    if comb >= 11 {
        &[1, 2]
    } else {
        &[0, 1, 2]
    }
}

fn valid_conts(comb: usize) -> &'static [u8] {
    match COMBINATORS[comb] {
        "or_parse" => &[0, 1, 2],
        "or_always_parse" | "and_then" | "and_also" | "result_and_also" => &[1, 2],
        _ => &[1],
    }
}

fn takes_closure(comb: usize) -> bool {
    !matches!(
        COMBINATORS[comb],
        "optional" | "matches" | "err_into" | "from_result" | "result_err_into"
    )
}

/// Reference semantics, from the documentation.
fn expected(k: &Case) -> Observed {
    let (a, b, c) = (k.a, k.b, k.c);
    let input = match k.input {
        0 => Out::Fall,
        1 => Out::Ok(a),
        _ => Out::Err(a),
    };
    let cont_res = match k.cont {
        0 => Out::Fall,
        1 => Out::Ok(b),
        _ => Out::Err(b),
    };
    let o = |out, calls, arg| Observed { out, calls, arg };
    match COMBINATORS[k.comb] {
        // "Tries a different parser when the current input did not match": the alternative runs
        // iff the previous result was a fallthrough, and then decides the result.
        "or_parse" | "or_always_parse" => match k.input {
            0 => o(cont_res, 1, None),
            _ => o(input, 0, None),
        },
        // "Makes a parser fail irrecoverably when the current input did not match"
        "or_give_up" => match k.input {
            0 => o(Out::Err(b), 1, None),
            _ => o(input, 0, None),
        },
        "optional" => match k.input {
            0 => o(Out::OkNone, 0, None),
            1 => o(Out::OkSome(a), 0, None),
            _ => o(Out::Err(a), 0, None),
        },
        "matches" => match k.input {
            0 => o(Out::OkBool(false), 0, None),
            1 => o(Out::OkBool(true), 0, None),
            _ => o(Out::Err(a), 0, None),
        },
        // "Locks in the choice ... When the returning parser succeeds, but the passed parser
        // fails, further alternatives will not be tried": failure is committed (Res(Err)).
        "and_then" => match k.input {
            1 => o(cont_res, 1, Some(a)),
            _ => o(input, 0, None),
        },
        // "always returns the (possibly modified) original value on success"
        "and_also" | "result_and_also" => match k.input {
            1 => match k.cont {
                1 => o(Out::Ok(a.wrapping_add(c)), 1, Some(a)),
                _ => o(Out::Err(b), 1, Some(a)),
            },
            _ => o(input, 0, None),
        },
        "and_do" | "result_and_do" => match k.input {
            1 => o(Out::Ok(a.wrapping_add(c)), 1, Some(a)),
            _ => o(input, 0, None),
        },
        // "If the parser was not successful, the error or fallthrough is returned unchanged."
        "map" => match k.input {
            1 => o(Out::Ok(a.wrapping_mul(3).wrapping_add(b)), 1, Some(a)),
            _ => o(input, 0, None),
        },
        "map_err" => match k.input {
            2 => o(Out::Err(a.wrapping_mul(5).wrapping_add(b)), 1, Some(a)),
            _ => o(input, 0, None),
        },
        "err_into" | "result_err_into" => match k.input {
            2 => o(Out::Err2(E2::from(a).0), 0, None),
            _ => o(input, 0, None),
        },
        "from_result" => o(input, 0, None),
        _ => unreachable!(),
    }
}

fn parsed_in(k: &Case) -> Parsed<i64, i64> {
    match k.input {
        0 => Parsed::Fallthrough,
        1 => Parsed::Res(Ok(k.a)),
        _ => Parsed::Res(Err(k.a)),
    }
}

fn result_in(k: &Case) -> Result<i64, i64> {
    match k.input {
        1 => Ok(k.a),
        _ => Err(k.a),
    }
}

fn out_parsed(p: Parsed<i64, i64>) -> Out {
    match p {
        Parsed::Fallthrough => Out::Fall,
        Parsed::Res(Ok(v)) => Out::Ok(v),
        Parsed::Res(Err(e)) => Out::Err(e),
    }
}

fn out_result(r: Result<i64, i64>) -> Out {
    match r {
        Ok(v) => Out::Ok(v),
        Err(e) => Out::Err(e),
    }
}

/// Runs the real combinator.
fn actual(k: &Case) -> Observed {
    let calls = Cell::new(0u32);
    let arg: Cell<Option<i64>> = Cell::new(None);
    let (b, c) = (k.b, k.c);
    let cont_parsed = || match k.cont {
        0 => Parsed::Fallthrough,
        1 => Parsed::Res(Ok(b)),
        _ => Parsed::Res(Err(b)),
    };
    let cont_result = || match k.cont {
        1 => Ok(b),
        _ => Err(b),
    };
    let out = match COMBINATORS[k.comb] {
        "or_parse" => out_parsed(parsed_in(k).or_parse(|| {
            calls.set(calls.get() + 1);
            cont_parsed()
        })),
        "or_always_parse" => out_result(parsed_in(k).or_always_parse(|| {
            calls.set(calls.get() + 1);
            cont_result()
        })),
        "or_give_up" => out_result(parsed_in(k).or_give_up(|| {
            calls.set(calls.get() + 1);
            b
        })),
        "optional" => match parsed_in(k).optional() {
            Ok(None) => Out::OkNone,
            Ok(Some(v)) => Out::OkSome(v),
            Err(e) => Out::Err(e),
        },
        "matches" => match parsed_in(k).matches() {
            Ok(m) => Out::OkBool(m),
            Err(e) => Out::Err(e),
        },
        "and_then" => out_parsed(parsed_in(k).and_then(|v| {
            calls.set(calls.get() + 1);
            arg.set(Some(v));
            cont_result()
        })),
        "and_also" => out_parsed(parsed_in(k).and_also(|v| {
            calls.set(calls.get() + 1);
            arg.set(Some(*v));
            *v = v.wrapping_add(c);
            if k.cont == 1 {
                Ok(())
            } else {
                Err(b)
            }
        })),
        "and_do" => out_parsed(parsed_in(k).and_do(|v| {
            calls.set(calls.get() + 1);
            arg.set(Some(*v));
            *v = v.wrapping_add(c);
        })),
        "map" => out_parsed(parsed_in(k).map(|v| {
            calls.set(calls.get() + 1);
            arg.set(Some(v));
            v.wrapping_mul(3).wrapping_add(b)
        })),
        "map_err" => out_parsed(parsed_in(k).map_err(|e| {
            calls.set(calls.get() + 1);
            arg.set(Some(e));
            e.wrapping_mul(5).wrapping_add(b)
        })),
        "err_into" => match parsed_in(k).err_into::<E2>() {
            Parsed::Fallthrough => Out::Fall,
            Parsed::Res(Ok(v)) => Out::Ok(v),
            Parsed::Res(Err(E2(e))) => Out::Err2(e),
        },
        "from_result" => out_parsed(Parsed::from(result_in(k))),
        "result_err_into" => match ResultExt::err_into::<E2>(result_in(k)) {
            Ok(v) => Out::Ok(v),
            Err(E2(e)) => Out::Err2(e),
        },
        "result_and_also" => out_result(ResultExt::and_also(result_in(k), |v| {
            calls.set(calls.get() + 1);
            arg.set(Some(*v));
            *v = v.wrapping_add(c);
            if k.cont == 1 {
                Ok(())
            } else {
                Err(b)
            }
        })),
        "result_and_do" => out_result(ResultExt::and_do(result_in(k), |v| {
            calls.set(calls.get() + 1);
            arg.set(Some(*v));
            *v = v.wrapping_add(c);
        })),
        _ => unreachable!(),
    };
    Observed {
        out,
        calls: calls.get(),
        arg: arg.get(),
    }
}

// ---- zero-sized instantiation: T = E = (), closures are fn items ----

thread_local! {
    static Z_CALLS: Cell<u32> = const { Cell::new(0) };
    static Z_CONT: Cell<u8> = const { Cell::new(1) };
}

fn z_bump() {
    Z_CALLS.with(|c| c.set(c.get() + 1));
}
fn z_cont_parsed() -> Parsed<(), ()> {
    z_bump();
    match Z_CONT.with(|c| c.get()) {
        0 => Parsed::Fallthrough,
        1 => Parsed::Res(Ok(())),
        _ => Parsed::Res(Err(())),
    }
}
fn z_cont_result() -> Result<(), ()> {
    z_bump();
    match Z_CONT.with(|c| c.get()) {
        1 => Ok(()),
        _ => Err(()),
    }
}
fn z_give_up() {
    z_bump();
}
fn z_and_then(_: ()) -> Result<(), ()> {
    z_cont_result()
}
fn z_and_also(_: &mut ()) -> Result<(), ()> {
    z_cont_result()
}
fn z_and_do(_: &mut ()) {
    z_bump();
}
fn z_map(_: ()) {
    z_bump();
}

#[derive(Debug, PartialEq, Eq, Clone, Copy)]
struct E3;
impl From<()> for E3 {
    fn from(_: ()) -> Self {
        E3
    }
}

fn z_parsed_in(k: &Case) -> Parsed<(), ()> {
    match k.input {
        0 => Parsed::Fallthrough,
        1 => Parsed::Res(Ok(())),
        _ => Parsed::Res(Err(())),
    }
}

fn z_out_parsed(p: Parsed<(), ()>) -> Out {
    match p {
        Parsed::Fallthrough => Out::Fall,
        Parsed::Res(Ok(())) => Out::Ok(0),
        Parsed::Res(Err(())) => Out::Err(0),
    }
}

fn z_out_result(r: Result<(), ()>) -> Out {
    match r {
        Ok(()) => Out::Ok(0),
        Err(()) => Out::Err(0),
    }
}

/// The real combinators on zero-sized values with stateless actions.
fn actual_zst(k: &Case) -> Observed {
    Z_CALLS.with(|c| c.set(0));
    Z_CONT.with(|c| c.set(k.cont));
    let z_result_in = || -> Result<(), ()> {
        match k.input {
            1 => Ok(()),
            _ => Err(()),
        }
    };
    let out = match COMBINATORS[k.comb] {
        "or_parse" => z_out_parsed(z_parsed_in(k).or_parse(z_cont_parsed)),
        "or_always_parse" => z_out_result(z_parsed_in(k).or_always_parse(z_cont_result)),
        "or_give_up" => z_out_result(z_parsed_in(k).or_give_up(z_give_up)),
        "optional" => match z_parsed_in(k).optional() {
            Ok(None) => Out::OkNone,
            Ok(Some(())) => Out::OkSome(0),
            Err(()) => Out::Err(0),
        },
        "matches" => match z_parsed_in(k).matches() {
            Ok(m) => Out::OkBool(m),
            Err(()) => Out::Err(0),
        },
        "and_then" => z_out_parsed(z_parsed_in(k).and_then(z_and_then)),
        "and_also" => z_out_parsed(z_parsed_in(k).and_also(z_and_also)),
        "and_do" => z_out_parsed(z_parsed_in(k).and_do(z_and_do)),
        "map" => z_out_parsed(z_parsed_in(k).map(z_map)),
        "map_err" => z_out_parsed(z_parsed_in(k).map_err(z_map)),
        "err_into" => match z_parsed_in(k).err_into::<E3>() {
            Parsed::Fallthrough => Out::Fall,
            Parsed::Res(Ok(())) => Out::Ok(0),
            Parsed::Res(Err(E3)) => Out::Err2(0),
        },
        "from_result" => z_out_parsed(Parsed::from(z_result_in())),
        "result_err_into" => match ResultExt::err_into::<E3>(z_result_in()) {
            Ok(()) => Out::Ok(0),
            Err(E3) => Out::Err2(0),
        },
        "result_and_also" => z_out_result(ResultExt::and_also(z_result_in(), z_and_also)),
        "result_and_do" => z_out_result(ResultExt::and_do(z_result_in(), z_and_do)),
        _ => unreachable!(),
    };
    Observed {
        out,
        calls: Z_CALLS.with(|c| c.get()),
        arg: None,
    }
}

/// The documented outcome with the payloads erased (what the zero-sized instantiation can show).
fn erase(o: Observed) -> Observed {
    let out = match o.out {
        Out::Ok(_) => Out::Ok(0),
        Out::Err(_) => Out::Err(0),
        Out::OkSome(_) => Out::OkSome(0),
        Out::Err2(_) => Out::Err2(0),
        other => other,
    };
    Observed {
        out,
        calls: o.calls,
        arg: None,
    }
}

struct UnrelatedPanic;

/// Runs `f` inside a destructor while the thread unwinds from an unrelated panic
/// (`std::thread::panicking()` is true for the duration of `f`).
fn while_unwinding<R>(f: impl FnOnce() -> R) -> Result<R, String> {
    struct Guard<F: FnOnce()>(Option<F>);
    impl<F: FnOnce()> Drop for Guard<F> {
        fn drop(&mut self) {
            if let Some(f) = self.0.take() {
                f()
            }
        }
    }
    let mut slot: Option<std::thread::Result<R>> = None;
    let r = std::panic::catch_unwind(std::panic::AssertUnwindSafe(|| {
        let _g = Guard(Some(|| {
            slot = Some(std::panic::catch_unwind(std::panic::AssertUnwindSafe(f)));
        }));
        std::panic::resume_unwind(Box::new(UnrelatedPanic));
    }));
    match (r, slot) {
        (Err(p), Some(Ok(v))) if p.is::<UnrelatedPanic>() => Ok(v),
        (_, Some(Err(p))) => Err(format!("panicked: {}", crate::engine::panic_message(&p))),
        _ => Err("the destructor did not run".into()),
    }
}

// ---- further evaluation contexts -------------------------------------------------------------

/// Runs `leaf` inside `depth` active continuations/alternatives of one real combinator (`kind`:
/// and_then, or_parse, and_also, map, and_do, or_always_parse, ResultExt::and_also); every level
/// checks its own combinator's result and that its closure ran exactly once.
fn nest<R>(depth: usize, kind: usize, leaf: &mut dyn FnMut() -> R, bad: &mut Option<String>) -> Option<R> {
    if depth == 0 {
        return Some(leaf());
    }
    let d = depth as i64;
    let mut out = None;
    let mut calls = 0u32;
    let ok = match kind % 7 {
        0 => {
            Parsed::<i64, i64>::Res(Ok(d)).and_then(|v| {
                calls += 1;
                out = nest(depth - 1, kind, leaf, bad);
                Ok(v)
            }) == Parsed::Res(Ok(d))
        }
        1 => {
            Parsed::<i64, i64>::Fallthrough.or_parse(|| {
                calls += 1;
                out = nest(depth - 1, kind, leaf, bad);
                Parsed::Res(Ok(d))
            }) == Parsed::Res(Ok(d))
        }
        2 => {
            Parsed::<i64, i64>::Res(Ok(d)).and_also(|_| {
                calls += 1;
                out = nest(depth - 1, kind, leaf, bad);
                Ok(())
            }) == Parsed::Res(Ok(d))
        }
        3 => {
            Parsed::<i64, i64>::Res(Ok(d)).map(|v| {
                calls += 1;
                out = nest(depth - 1, kind, leaf, bad);
                v + 1
            }) == Parsed::Res(Ok(d + 1))
        }
        4 => {
            Parsed::<i64, i64>::Res(Ok(d)).and_do(|_| {
                calls += 1;
                out = nest(depth - 1, kind, leaf, bad);
            }) == Parsed::Res(Ok(d))
        }
        5 => {
            Parsed::<i64, i64>::Fallthrough.or_always_parse(|| {
                calls += 1;
                out = nest(depth - 1, kind, leaf, bad);
                Ok(d)
            }) == Ok(d)
        }
        _ => {
            ResultExt::and_also(Ok::<i64, i64>(d), |_| {
                calls += 1;
                out = nest(depth - 1, kind, leaf, bad);
                Ok(())
            }) == Ok(d)
        }
    };
    if (!ok || calls != 1) && bad.is_none() {
        *bad = Some(format!(
            "nesting level {depth} ({}): result as documented: {ok}, closure invoked {calls} time(s)",
            ["and_then", "or_parse", "and_also", "map", "and_do", "or_always_parse", "ResultExt::and_also"][kind % 7]
        ));
    }
    out
}

pub const NEST_DEPTH: usize = 1500;

/// Calls `f` about `levels` x 64 KiB further down the stack.
#[inline(never)]
fn descend<R>(levels: usize, f: &mut dyn FnMut() -> R) -> R {
    let mut pad = [0u8; 64 << 10];
    std::hint::black_box(&mut pad);
    let r = if levels == 0 { f() } else { descend(levels - 1, f) };
    std::hint::black_box(&pad);
    r
}

/// Evaluates at a shallow stack position, about 4 MiB further down, and shallow again, on a fresh
/// thread with a 16 MiB stack; all three observations are returned.
fn at_stack_positions(k: &Case, zst: bool) -> Result<Vec<Observed>, String> {
    let k = k.clone();
    std::thread::Builder::new()
        .stack_size(16 << 20)
        .spawn(move || {
            let mut eval = || if zst { actual_zst(&k) } else { actual(&k) };
            let a = eval();
            let b = descend(64, &mut eval);
            let c = eval();
            vec![a, b, c]
        })
        .map_err(|e| format!("cannot spawn: {e}"))?
        .join()
        .map_err(|p| format!("panicked: {}", crate::engine::panic_message(&p)))
}

/// Runs `f` while 300 other threads are parked inside a continuation or alternative of the
/// combinators: all in combinator `kind`, or cycled over all closure-taking ones. Returns `f`'s result and the first
/// complaint of a parked thread about its own combinator.
pub fn with_parked_threads<R>(kind: Option<usize>, f: impl FnOnce() -> R) -> (R, Option<String>) {
    use std::sync::{Arc, Barrier};
    const N: usize = 300;
    let entered = Arc::new(Barrier::new(N + 1));
    let release = Arc::new(Barrier::new(N + 1));
    let mut handles = vec![];
    for t in 0..N {
        let (entered, release) = (entered.clone(), release.clone());
        let (entered2, release2) = (entered.clone(), release.clone());
        let h = std::thread::Builder::new().stack_size(256 << 10).spawn(move || -> Option<String> {
            let mut calls = 0u32;
            let mut park = || {
                calls += 1;
                entered.wait();
                release.wait();
            };
            let d = t as i64;
            let which = kind.unwrap_or(t) % 9;
            let ok = match which {
                0 => Parsed::<i64, i64>::Res(Ok(d)).and_then(|v| { park(); Ok(v) }) == Parsed::Res(Ok(d)),
                1 => Parsed::<i64, i64>::Fallthrough.or_parse(|| { park(); Parsed::Res(Ok(d)) }) == Parsed::Res(Ok(d)),
                2 => Parsed::<i64, i64>::Res(Ok(d)).and_also(|_| { park(); Ok(()) }) == Parsed::Res(Ok(d)),
                3 => Parsed::<i64, i64>::Res(Ok(d)).map(|v| { park(); v }) == Parsed::Res(Ok(d)),
                4 => Parsed::<i64, i64>::Res(Ok(d)).and_do(|_| park()) == Parsed::Res(Ok(d)),
                5 => Parsed::<i64, i64>::Fallthrough.or_always_parse(|| { park(); Ok(d) }) == Ok(d),
                6 => Parsed::<i64, i64>::Fallthrough.or_give_up(|| { park(); d }) == Err(d),
                7 => Parsed::<i64, i64>::Res(Err(d)).map_err(|e| { park(); e }) == Parsed::Res(Err(d)),
                _ => ResultExt::and_do(Ok::<i64, i64>(d), |_| park()) == Ok(d),
            };
            if calls == 0 {
                // the closure was not invoked: do not leave the others waiting
                entered.wait();
                release.wait();
            }
            if !ok || calls != 1 {
                Some(format!("parked thread {t} (combinator {which}): result as documented: {ok}, closure invoked {calls} time(s)"))
            } else {
                None
            }
        });
        match h {
            Ok(h) => handles.push(h),
            Err(_) => {
                // cannot create the thread: keep the barriers consistent from here
                handles.push(std::thread::spawn(move || {
                    entered2.wait();
                    release2.wait();
                    None
                }));
            }
        }
    }
    entered.wait();
    let r = f();
    release.wait();
    let mut complaint = None;
    for h in handles {
        if let Ok(Some(c)) = h.join() {
            complaint.get_or_insert(c);
        }
    }
    (r, complaint)
}

pub fn check_concurrent(k: &Case, obs: &mut Obs) -> CheckResult {
    // all parked threads inside the combinator under test (where it has a closure), then mixed
    let own = match COMBINATORS[k.comb.min(COMBINATORS.len() - 1)] {
        "and_then" => Some(0),
        "or_parse" => Some(1),
        "and_also" => Some(2),
        "map" => Some(3),
        "and_do" => Some(4),
        "or_always_parse" => Some(5),
        "or_give_up" => Some(6),
        "map_err" => Some(7),
        "result_and_do" => Some(8),
        _ => None,
    };
    if own.is_some() {
        let (r, complaint) = with_parked_threads(own, || check(k, &mut Obs::default()));
        r?;
        if let Some(c) = complaint {
            fail!("C15:concurrent:parked-thread", "{c}");
        }
    }
    let (r, complaint) = with_parked_threads(None, || check(k, obs));
    r?;
    if let Some(c) = complaint {
        fail!("C15:concurrent:parked-thread", "{c}");
    }
    Ok(())
}

// ---- long runs and large payloads --------------------------------------------------------------

/// More than 2^32 evaluations of one combinator on one thread (a per-thread or global counter of
/// 32 bits inside the library would wrap), or deep nesting with 64 KiB payloads held by value.
#[derive(Serialize, Deserialize, Clone, Debug, PartialEq, Eq, Hash)]
pub struct LongRun {
    /// 0 or_parse, 1 or_always_parse, 2 and_then, 3 and_also, 4 and_do, 5 map, 6 or_give_up, 7 map_err
    pub kind: u8,
    /// Number of evaluations; 0: instead nest 160 continuations of combinator `kind` (2..=5 and the
    /// two ResultExt methods as 8, 9) around values of 64 KiB.
    pub iterations: u64,
}

struct Big([u8; 65536]);

fn nest_big(depth: usize, kind: u8, bad: &mut Option<String>) {
    if depth == 0 {
        return;
    }
    let tag = (depth % 251) as u8;
    let v = Big([tag; 65536]);
    let mut calls = 0u32;
    let out: Option<Big> = match kind {
        2 => match Parsed::<Big, i64>::Res(Ok(v)).and_then(|mut b| {
            calls += 1;
            nest_big(depth - 1, kind, bad);
            b.0[7] = b.0[7].wrapping_add(1);
            Ok(b)
        }) {
            Parsed::Res(Ok(b)) => Some(b),
            _ => None,
        },
        3 => match Parsed::<Big, i64>::Res(Ok(v)).and_also(|b| {
            calls += 1;
            nest_big(depth - 1, kind, bad);
            b.0[7] = b.0[7].wrapping_add(1);
            Ok(())
        }) {
            Parsed::Res(Ok(b)) => Some(b),
            _ => None,
        },
        4 => match Parsed::<Big, i64>::Res(Ok(v)).and_do(|b| {
            calls += 1;
            nest_big(depth - 1, kind, bad);
            b.0[7] = b.0[7].wrapping_add(1);
        }) {
            Parsed::Res(Ok(b)) => Some(b),
            _ => None,
        },
        5 => match Parsed::<Big, i64>::Res(Ok(v)).map(|mut b| {
            calls += 1;
            nest_big(depth - 1, kind, bad);
            b.0[7] = b.0[7].wrapping_add(1);
            b
        }) {
            Parsed::Res(Ok(b)) => Some(b),
            _ => None,
        },
        8 => ResultExt::and_also(Ok::<Big, i64>(v), |b| {
            calls += 1;
            nest_big(depth - 1, kind, bad);
            b.0[7] = b.0[7].wrapping_add(1);
            Ok(())
        })
        .ok(),
        _ => ResultExt::and_do(Ok::<Big, i64>(v), |b| {
            calls += 1;
            nest_big(depth - 1, kind, bad);
            b.0[7] = b.0[7].wrapping_add(1);
        })
        .ok(),
    };
    let fine = matches!(&out, Some(b) if b.0[7] == tag.wrapping_add(1) && b.0[65535] == tag) && calls == 1;
    if !fine && bad.is_none() {
        *bad = Some(format!(
            "nesting level {depth} with a 64 KiB payload: success kept with the continuation's modification: {}, continuation invoked {calls} time(s)",
            matches!(&out, Some(b) if b.0[7] == tag.wrapping_add(1))
        ));
    }
}

pub fn check_long_run(c: &LongRun, obs: &mut Obs) -> CheckResult {
    use std::hint::black_box;
    obs.nontrivial();
    if c.iterations == 0 {
        obs.class("large-payload-nesting");
        let kind = c.kind;
        let bad = std::thread::Builder::new()
            .stack_size(512 << 20)
            .spawn(move || {
                let mut bad = None;
                nest_big(160, kind, &mut bad);
                bad
            })
            .map_err(|e| crate::engine::Failure::new("C15:long-run:spawn", e.to_string()))?
            .join()
            .map_err(|p| crate::engine::Failure::new(format!("C15:big-payload:{}:panic", c.kind), crate::engine::panic_message(&p)))?;
        if let Some(b) = bad {
            fail!(format!("C15:big-payload:{}", c.kind), "combinator kind {}: {b}", c.kind);
        }
        return Ok(());
    }
    obs.class("evaluations>2^32");
    let n = c.iterations;
    let mut calls = 0u64;
    let mut wrong = 0u64;
    for i in 0..n {
        let x = black_box(i as i64);
        let ok = match c.kind % 8 {
            0 => Parsed::<i64, i64>::Fallthrough.or_parse(|| { calls += 1; Parsed::Res(Ok(x)) }) == Parsed::Res(Ok(x)),
            1 => Parsed::<i64, i64>::Fallthrough.or_always_parse(|| { calls += 1; Ok(x) }) == Ok(x),
            2 => Parsed::<i64, i64>::Res(Ok(x)).and_then(|v| { calls += 1; Ok(v ^ 1) }) == Parsed::Res(Ok(x ^ 1)),
            3 => Parsed::<i64, i64>::Res(Ok(x)).and_also(|v| { calls += 1; *v ^= 1; Ok(()) }) == Parsed::Res(Ok(x ^ 1)),
            4 => Parsed::<i64, i64>::Res(Ok(x)).and_do(|v| { calls += 1; *v ^= 1; }) == Parsed::Res(Ok(x ^ 1)),
            5 => Parsed::<i64, i64>::Res(Ok(x)).map(|v| { calls += 1; v ^ 1 }) == Parsed::Res(Ok(x ^ 1)),
            6 => Parsed::<i64, i64>::Fallthrough.or_give_up(|| { calls += 1; x }) == Err(x),
            _ => Parsed::<i64, i64>::Res(Err(x)).map_err(|e| { calls += 1; e ^ 1 }) == Parsed::Res(Err(x ^ 1)),
        };
        wrong += !black_box(ok) as u64;
    }
    if wrong != 0 || calls != n {
        fail!(
            format!("C15:long-run:{}", c.kind % 8),
            "combinator kind {} evaluated {} times on one thread: {} results not as documented, closure invoked {} times",
            c.kind % 8,
            n,
            wrong,
            calls
        );
    }
    Ok(())
}

pub fn check(k: &Case, obs: &mut Obs) -> CheckResult {
    if k.comb >= COMBINATORS.len()
        || !valid_inputs(k.comb).contains(&k.input)
        || !valid_conts(k.comb).contains(&k.cont)
    {
        return Ok(());
    }
    let name = COMBINATORS[k.comb];
    obs.class(format!("comb/{name}"));
    obs.class(format!("input/{}", ["fallthrough", "ok", "err"][k.input as usize]));
    if takes_closure(k.comb) {
        obs.nontrivial();
    }
    let zst = k.ctx & 2 != 0;
    let unwinding = k.ctx & 1 != 0;
    obs.class(format!(
        "context/{}{}",
        if zst { "zero-sized-values+fn-items" } else { "i64-values+capturing-closures" },
        if unwinding { "+in-destructor-while-unwinding" } else { "" }
    ));
    let nested = k.ctx & 4 != 0;
    let deep_stack = k.ctx & 8 != 0;
    obs.class_if(nested, "context/inside-1500-active-continuations");
    obs.class_if(deep_stack, "context/shallow-deep-shallow-stack-positions");
    let want = if zst { erase(expected(k)) } else { expected(k) };
    if deep_stack {
        let tag = format!("C15:{name}:in{}:cont{}:stack", k.input, k.cont);
        match at_stack_positions(k, zst) {
            Err(e) => fail!(tag, "{name} evaluated at different stack positions: {e}"),
            Ok(v) => {
                for (i, got) in v.iter().enumerate() {
                    if *got != want {
                        fail!(
                            tag,
                            "{name} evaluated at stack position {} (0 shallow, 1 about 4 MiB deeper, 2 shallow again): observed {:?}, documented {:?}",
                            i,
                            got,
                            want
                        );
                    }
                }
            }
        }
    }
    let nest_complaint: std::cell::RefCell<Option<String>> = std::cell::RefCell::new(None);
    let eval = || {
        let mut leaf = || if zst { actual_zst(k) } else { actual(k) };
        if nested {
            let mut bad = None;
            // the nesting combinator is the one under test where it has a continuation
            let kind = match name {
                "and_then" => 0,
                "or_parse" => 1,
                "and_also" => 2,
                "map" => 3,
                "and_do" => 4,
                "or_always_parse" => 5,
                "result_and_also" => 6,
                _ => k.comb,
            };
            let r = nest(NEST_DEPTH, kind, &mut leaf, &mut bad);
            if bad.is_some() {
                *nest_complaint.borrow_mut() = bad;
            }
            match r {
                Some(o) => o,
                // a level did not run its closure: reported through the complaint
                None => Observed { out: Out::Fall, calls: u32::MAX, arg: None },
            }
        } else {
            leaf()
        }
    };
    let got = if unwinding {
        match while_unwinding(eval) {
            Ok(g) => g,
            Err(e) => fail!(
                format!("C15:{name}:in{}:cont{}:unwinding", k.input, k.cont),
                "{name} evaluated in a destructor during unwinding: {e}"
            ),
        }
    } else {
        eval()
    };
    let nest_complaint = nest_complaint.into_inner();
    let sig = format!(
        "C15:{name}:in{}:cont{}{}{}{}",
        k.input,
        k.cont,
        if zst { ":zst" } else { "" },
        if unwinding { ":unwinding" } else { "" },
        if nested { ":nested" } else { "" }
    );
    if let Some(c) = nest_complaint {
        fail!(format!("C15:nesting:{}", c.split('(').nth(1).and_then(|x| x.split(')').next()).unwrap_or("?")), "{c}");
    }
    ensure!(
        got.calls == want.calls,
        sig,
        "{name}: closure invoked {} time(s), documented {} (input case {}, continuation {})",
        got.calls,
        want.calls,
        k.input,
        k.cont
    );
    ensure!(
        got.out == want.out,
        sig,
        "{name}: returned {:?}, documented {:?} (input case {}, continuation {})",
        got.out,
        want.out,
        k.input,
        k.cont
    );
    if got.arg != want.arg {
        fail!(
            sig,
            "{name}: closure received {:?}, documented {:?}",
            got.arg,
            want.arg
        );
    }
    Ok(())
}

fn run(ctx: &Ctx) {
    // Complete enumeration of the finite part, with three fixed payload triples; done by shard 0
    // only (it takes microseconds).
    if ctx.shard == 0 {
        let payloads = [(7i64, 11i64, 13i64), (0, 0, 0), (i64::MAX, i64::MIN, -1)];
        let mut n = 0;
        for comb in 0..COMBINATORS.len() {
            for &input in valid_inputs(comb) {
                for &cont in valid_conts(comb) {
                    for &(a, b, c) in &payloads {
                        for cx in 0..16u8 {
                            let k = Case {
                                comb,
                                input,
                                cont,
                                a,
                                b,
                                c,
                                ctx: cx,
                            };
                            ctx.run_one("enumerate", &k, check);
                            n += 1;
                        }
                    }
                }
            }
        }
        // the same enumeration (plain and zero-sized contexts) while 300 threads sit inside
        // continuations / alternatives of the combinators: all in one combinator (nine rounds),
        // then mixed
        for kind in (0..9).map(Some).chain([None]) {
            let (_, complaint) = with_parked_threads(kind, || {
                for comb in 0..COMBINATORS.len() {
                    for &input in valid_inputs(comb) {
                        for &cont in valid_conts(comb) {
                            for cx in [0u8, 2] {
                                let k = Case { comb, input, cont, a: 7, b: 11, c: 13, ctx: cx };
                                ctx.run_one("enumerate-concurrent", &k, check);
                                n += 1;
                            }
                        }
                    }
                }
            });
            if let Some(c) = complaint {
                let k = Case { comb: 0, input: 0, cont: 1, a: 7, b: 11, c: 13, ctx: 0 };
                ctx.run_one("enumerate-concurrent", &k, move |_, _| {
                    Err(crate::engine::Failure::new("C15:concurrent:parked-thread", c.clone()))
                });
            }
        }
        ctx.count("enumerate/combinations", n);
        ctx.exhaustive_part(format!(
            "all {} (combinator, input, continuation) combinations x 3 payload triples x 16 evaluation contexts (plain / inside a destructor during unwinding; i64 payloads with capturing closures / zero-sized payloads with fn items; plain / inside 1500 active continuations of the combinators; one stack position / shallow, 4 MiB deeper, shallow again on one thread), and once more while 300 threads are parked inside continuations of the combinators",
            n / 48
        ));
    }
    // 2^32 + 1000 evaluations of one combinator per shard pair (both build profiles), and deep
    // nesting around 64 KiB payloads.
    if ctx.profile != "unopt" {
        let kind = (ctx.shard / 2) as u8 % 8;
        ctx.run_one("long-run", &LongRun { kind, iterations: (1u64 << 32) + 1000 }, check_long_run);
        if ctx.shard < 12 {
            let kind = [2u8, 3, 4, 5, 8, 9][(ctx.shard / 2) as usize % 6];
            ctx.run_one("long-run", &LongRun { kind, iterations: 0 }, check_long_run);
        }
    }
    // Payload values drawn by proptest over the same finite skeleton.
    let strat = (
        0..COMBINATORS.len(),
        0u8..3,
        0u8..3,
        any::<i64>(),
        any::<i64>(),
        any::<i64>(),
        prop_oneof![40 => Just(0u8), 4 => Just(1u8), 4 => Just(2u8), 4 => Just(3u8), 2 => 4u8..8, 1 => 8u8..16],
    )
        .prop_map(|(comb, input, cont, a, b, c, cx)| {
            let vi = valid_inputs(comb);
            let vc = valid_conts(comb);
            Case {
                comb,
                input: vi[(input as usize * vi.len()) / 3],
                cont: vc[(cont as usize * vc.len()) / 3],
                a,
                b,
                c,
                ctx: cx,
            }
        });
    let cases = ctx.share(ctx.tier.pick(640_000, 64_000_000));
    ctx.run_cases("payloads", cases, strat, check);
}

fn replay(oracle: &str, v: &Value) -> Option<CheckResult> {
    match oracle {
        "long-run" => {
            let k: LongRun = match replay_from_file(v) {
                Ok(k) => k,
                Err(e) => return Some(Err(crate::engine::Failure::new("C15:decode", e))),
            };
            Some(check_long_run(&k, &mut Obs::default()))
        }
        "enumerate-concurrent" => {
            let k: Case = match replay_from_file(v) {
                Ok(k) => k,
                Err(e) => return Some(Err(crate::engine::Failure::new("C15:decode", e))),
            };
            Some(check_concurrent(&k, &mut Obs::default()))
        }
        "enumerate" | "payloads" => {
            let k: Case = match replay_from_file(v) {
                Ok(k) => k,
                Err(e) => return Some(Err(crate::engine::Failure::new("C15:decode", e))),
            };
            Some(check(&k, &mut Obs::default()))
        }
        _ => None,
    }
}

#[allow(dead_code)]
fn _tier(_: Tier) {}

//! C08 — syntax errors point at the offending token.
use std::rc::Rc;

use proptest::prelude::*;
use serde::{Deserialize, Serialize};
use serde_json::Value;

use super::PropDef;
use crate::drivers::{self, Final, ParserId, Spec};
use crate::engine::{replay_from_file, show_bytes, CheckResult, Ctx, Failure, Obs};
use crate::fail;
use crate::gen::{choices_strategy, doc_strategy, spec_strategy, Doc, Role, Tok};
use crate::inputs::{input_strategy, Input};
use crate::source::{feed_strategy, Feed};

pub fn def() -> PropDef {
    PropDef {
        id: "C08",
        level: "exploration",
        profiles: &["checked", "fast"],
        abort_is_violation: false,
        rule: "Part A (bounds): every input of the C01 generators that is rejected with a syntax error, under a \
               generated feed: 1 <= line <= number of lines + 1 and 1 <= column <= length of that line + 1, lines \
               split at LF (for binary AIGER the and-gate section, located by an independent header/varint decoder, \
               does not contain line breaks; if it cannot be delimited only line <= LF count + 1 and column <= \
               input length + 1 are required). Part B (exact place): a well-formed document of every format plus \
               exactly one corruption from a catalogue with unambiguous location (garbage token, number \
               overflowing the type / 40 digits, DIMACS literal or group beyond the declared count, variable count \
               above the type's maximum, AIGER literal above 2M+1, odd or zero defined literal, symbol index \
               beyond its section, fused tokens, invalid UTF-8 inside a symbol name, unknown or misspelt BTOR2 \
               keyword, zero node id, multi-byte binary AIGER delta code above its reference code, AIGER number with leading zeros, DIMACS literal at the minimum of a signed integer type), parsed one-shot and under a generated feed: the error's line must be the \
               token's line and its column must lie on the corrupted token; one case in four is repeated behind a 1..23-byte \
               preamble that the caller consumes before LineReader::new (line 1 starts at the current position). Part C \
               (LineReader used directly): a hand-written word scanner over generated lines (words of 1..3000 bytes, so \
               that small chunks realign inside a word) reports an error at a generated word via give_up(), \
               set_mark()+give_up_at(mark()) or set_mark_to_position(saved)+give_up_at(mark()); line and column must be \
               the word's. Non-trivial: Part A - error beyond \
               line 1 or column 1; Part B - every applicable corruption. Distinct by hash.",
        assumptions: &[
            "shards alternate between a build with overflow checks and a plain release build (an underflowing column computation is a panic in the former and a wrapped, out-of-bounds column in the latter)",
            "the token map of the reference renderer (harness/src/gen.rs) gives the true line/column of every token",
            "Part B only uses corruptions whose error position is unambiguous; ambiguous ones (e.g. a valid but different number) are not in the catalogue",
        ],
        exhaustive: |_| false,
        run,
        replay,
    }
}

// ---------------------------------------------------------------------------------------------
// Part A

/// Locates the binary and-gate section of a binary AIGER file: Some((start, end)) in bytes.
pub fn binary_section(b: &[u8]) -> Option<(usize, usize)> {
    if !b.starts_with(b"aig ") {
        return None;
    }
    let eol = b.iter().position(|&c| c == b'\n')?;
    let header = std::str::from_utf8(&b[4..eol]).ok()?;
    let f: Vec<u128> = header.split(' ').map(|x| x.parse::<u128>()).collect::<Result<_, _>>().ok()?;
    if f.len() < 5 || f.len() > 9 || f.iter().skip(2).any(|&v| v > 1_000_000) {
        return None;
    }
    let get = |i: usize| f.get(i).copied().unwrap_or(0);
    let (l, o, a, bb, c, j, ff) = (get(2), get(3), get(4), get(5), get(6), get(7), get(8));
    if l + o + bb + c + j + ff > 1_000_000 || a > 1_000_000 {
        return None;
    }
    let mut pos = eol + 1;
    let next_line = |pos: &mut usize| -> Option<&[u8]> {
        let rest = &b[*pos..];
        let e = rest.iter().position(|&c| c == b'\n')?;
        let line = &rest[..e];
        *pos += e + 1;
        Some(line)
    };
    for _ in 0..(l + o + bb + c) {
        next_line(&mut pos)?;
    }
    let mut total = 0u128;
    for _ in 0..j {
        let line = next_line(&mut pos)?;
        let v = std::str::from_utf8(line).ok()?.parse::<u128>().ok()?;
        if v > 1_000_000 {
            return None;
        }
        total += v;
        if total > 1_000_000 {
            return None;
        }
    }
    for _ in 0..(total + ff) {
        next_line(&mut pos)?;
    }
    let start = pos;
    for _ in 0..(2 * a) {
        loop {
            let byte = *b.get(pos)?;
            pos += 1;
            if byte & 0x80 == 0 {
                break;
            }
        }
    }
    Some((start, pos))
}

/// Checks that (line, col) designates a position inside the input.
pub fn location_in_bounds(b: &[u8], binary: bool, line: usize, col: usize) -> Result<(), String> {
    let section = if binary { binary_section(b) } else { None };
    if binary && section.is_none() {
        let lfs = b.iter().filter(|&&c| c == b'\n').count();
        if line < 1 || line > lfs + 2 || col < 1 || col > b.len() + 1 {
            return Err(format!(
                "location {line}:{col} is outside the input ({} line breaks, {} bytes)",
                lfs,
                b.len()
            ));
        }
        return Ok(());
    }
    let (s, e) = section.unwrap_or((0, 0));
    // line lengths as the parser sees them
    let mut lens = vec![];
    let mut cur = 0usize;
    for (i, &c) in b.iter().enumerate() {
        if c == b'\n' && !(i >= s && i < e) {
            lens.push(cur);
            cur = 0;
        } else {
            cur += 1;
        }
    }
    if cur > 0 {
        lens.push(cur);
    }
    // "between 1 and the number of lines plus one": the position behind the last line is allowed
    if line < 1 || line > lens.len() + 1 {
        return Err(format!(
            "line {line} is outside 1..={} (location {line}:{col}; the input has {} line(s))",
            lens.len() + 1,
            lens.len()
        ));
    }
    let len = lens.get(line - 1).copied().unwrap_or(0);
    if col < 1 || col > len + 1 {
        return Err(format!(
            "column {col} is outside 1..={} for line {line}, which is {len} bytes long",
            len + 1
        ));
    }
    Ok(())
}

#[derive(Serialize, Deserialize, Clone, Debug, PartialEq, Eq, Hash)]
pub struct BoundsCase {
    pub input: Input,
    pub feed: Feed,
}

pub fn check_bounds(c: &BoundsCase, obs: &mut Obs) -> CheckResult {
    let data = Rc::new(c.input.bytes.clone());
    let spec = c.input.spec;
    let (t, _) = drivers::run(&spec, data.clone(), &c.feed, None, false);
    obs.class(format!("parser/{}", spec.parser.name()));
    let Final::Syntax { line, col, msg } = &t.fin else {
        obs.class("not-a-syntax-error");
        return Ok(());
    };
    obs.class("syntax-error");
    if *line > 1 || *col > 1 {
        obs.nontrivial();
    }
    obs.class_if(*line > 1, "error-beyond-line-1");
    if let Err(why) = location_in_bounds(&data, spec.parser.is_binary_aiger(), *line, *col) {
        fail!(
            format!("C08:{}:out-of-bounds", spec.parser.name()),
            "{}: {} (message: {}); chunk {:?}, schedule {}; input {:?}",
            spec.describe(),
            why,
            msg,
            c.feed.chunk,
            c.feed.sched.class(),
            show_bytes(&data)
        );
    }
    Ok(())
}

// ---------------------------------------------------------------------------------------------
// Part B

pub const CORRUPTIONS: [&str; 18] = [
    "garbage-token",
    "digits-then-garbage",
    "overflow-40-digits",
    "overflow-type",
    "dimacs-literal-beyond-declared",
    "dimacs-group-beyond-declared",
    "dimacs-var-count-beyond-type",
    "aiger-literal-beyond-2m1",
    "aiger-defined-literal-odd-or-zero",
    "aiger-symbol-index-beyond-section",
    "fuse-with-next-token",
    "aiger-name-invalid-utf8",
    "btor2-unknown-keyword",
    "btor2-zero-id",
    "aiger-latch-init-invalid",
    "aiger-binary-delta-too-large",
    "aiger-leading-zero",
    "dimacs-literal-at-type-minimum",
];

#[derive(Serialize, Deserialize, Clone, Debug, PartialEq, Eq, Hash)]
pub struct ExactCase {
    pub spec: Spec,
    pub doc: Doc,
    #[serde(with = "crate::engine::hexbytes")]
    pub choices: Vec<u8>,
    pub fancy: bool,
    pub corruption: usize,
    pub pick: u16,
    pub arg: u16,
    pub feed: Feed,
}

struct Corrupted {
    bytes: Vec<u8>,
    line: usize,
    col_lo: usize,
    col_hi: usize,
}

fn pick_tok<'a>(toks: &'a [&'a Tok], pick: u16) -> Option<&'a Tok> {
    if toks.is_empty() {
        None
    } else {
        Some(toks[(pick as usize * toks.len()) >> 16])
    }
}

fn replace(bytes: &[u8], t: &Tok, with: &[u8]) -> Corrupted {
    let mut b = bytes[..t.start].to_vec();
    b.extend_from_slice(with);
    b.extend_from_slice(&bytes[t.end..]);
    Corrupted {
        bytes: b,
        line: t.line,
        col_lo: t.col,
        col_hi: t.col + with.len().max(1) - 1,
    }
}

fn corrupt(c: &ExactCase) -> Option<Corrupted> {
    let junk = c.spec.parser == ParserId::Log && c.spec.flag;
    let r = c.doc.render(&c.choices, c.fancy, junk);
    let bytes = &r.bytes;
    let spec = &c.spec;
    let binary = spec.parser.is_binary_aiger();
    // for binary AIGER only the ASCII part before the and-gates has reference line numbers
    let limit = r
        .toks
        .iter()
        .find(|t| t.role == Role::Delta)
        .map_or(usize::MAX, |t| t.start);
    let usable = |t: &&Tok| t.end <= bytes.len() && t.start < t.end && (!binary || t.end <= limit);
    let nums: Vec<&Tok> = r.toks.iter().filter(|t| matches!(t.role, Role::Num | Role::Term0)).filter(usable).collect();
    let braced = |t: &Tok| bytes[t.start] == b'{';
    let wrap = |t: &Tok, s: &str| -> Vec<u8> {
        if braced(t) {
            format!("{{{s}}}").into_bytes()
        } else {
            s.as_bytes().to_vec()
        }
    };
    let is_log = spec.parser == ParserId::Log;
    match CORRUPTIONS[c.corruption % CORRUPTIONS.len()] {
        "garbage-token" => {
            if is_log && spec.flag {
                return None; // unknown lines are ignored in that mode
            }
            let t = pick_tok(&nums, c.pick)?;
            if braced(t) {
                return None;
            }
            Some(replace(bytes, t, [b"@@".as_slice(), b"!x", b"x7"][c.arg as usize % 3]))
        }
        "digits-then-garbage" => {
            let t = pick_tok(&nums, c.pick)?;
            if braced(t) {
                return None;
            }
            Some(replace(bytes, t, b"12x"))
        }
        "overflow-40-digits" => {
            let t = pick_tok(&nums, c.pick)?;
            let neg = bytes[t.start] == b'-';
            let s = format!("{}1234567890123456789012345678901234567890", if neg { "-" } else { "" });
            Some(replace(bytes, t, &wrap(t, &s)))
        }
        "overflow-type" => {
            let t = pick_tok(&nums, c.pick)?;
            // one above what any field of this format/type can hold
            // one above what any 64-bit field can hold (counts are usize/u64 for every literal type)
            let s = "18446744073709551616".to_string();
            Some(replace(bytes, t, &wrap(t, &s)))
        }
        "dimacs-literal-beyond-declared" => {
            let Doc::Dimacs(d) = &c.doc else { return None };
            let (v, _, _) = d.header?;
            if v == 0 || spec.flag || (v as i128) >= spec.max_dimacs() {
                return None;
            }
            // literal tokens: Num tokens of clause items that are not the weight/group
            let first_clause_item = 1;
            let lits: Vec<&Tok> = r
                .toks
                .iter()
                .filter(|t| t.role == Role::Num && t.item >= first_clause_item && t.item != usize::MAX)
                .filter(usable)
                .filter(|t| {
                    // skip the weight / group token: the first Num token of its item
                    d.kind == ParserId::Cnf
                        || r.toks.iter().find(|u| u.item == t.item && u.role == Role::Num).map(|u| u.start) != Some(t.start)
                })
                .collect();
            let t = pick_tok(&lits, c.pick)?;
            let s = format!("{}{}", if c.arg % 2 == 0 { "" } else { "-" }, v + 1);
            Some(replace(bytes, t, s.as_bytes()))
        }
        "dimacs-group-beyond-declared" => {
            let Doc::Dimacs(d) = &c.doc else { return None };
            let (_, _, g) = d.header?;
            if d.kind != ParserId::Gcnf || g == 0 || spec.flag || g == u64::MAX {
                return None;
            }
            let groups: Vec<&Tok> = r.toks.iter().filter(|t| t.role == Role::Num).filter(usable).filter(|t| braced(t)).collect();
            let t = pick_tok(&groups, c.pick)?;
            Some(replace(bytes, t, format!("{{{}}}", g + 1).as_bytes()))
        }
        "dimacs-var-count-beyond-type" => {
            let Doc::Dimacs(d) = &c.doc else { return None };
            d.header?;
            let t = r.toks.iter().find(|t| t.role == Role::Num && t.item == 0)?;
            Some(replace(bytes, t, (spec.max_dimacs() + 1).to_string().as_bytes()))
        }
        "aiger-literal-beyond-2m1" => {
            let Doc::Aiger(d) = &c.doc else { return None };
            // literal tokens: every Num token that is not in the header (item 0) and not a justice size
            let sizes_from = 1
                + if d.binary { 0 } else { d.aig.inputs.len() }
                + d.aig.latches.len()
                + d.aig.outputs.len()
                + d.aig.bad.len()
                + d.aig.constraints.len();
            let sizes_to = sizes_from + d.aig.justice.len();
            let lits: Vec<&Tok> = nums
                .iter()
                .copied()
                .filter(|t| t.item >= 1 && !(t.item >= sizes_from && t.item < sizes_to))
                .collect();
            let t = pick_tok(&lits, c.pick)?;
            let v = 2 * d.aig.max_var_index as u128 + 2 + 2 * (c.arg as u128 % 3);
            Some(replace(bytes, t, v.to_string().as_bytes()))
        }
        "aiger-defined-literal-odd-or-zero" => {
            let Doc::Aiger(d) = &c.doc else { return None };
            if d.binary {
                return None;
            }
            // defining tokens: input lines, first token of latch lines, first token of and lines
            let n_in = d.aig.inputs.len();
            let n_l = d.aig.latches.len();
            let before_ands = 1
                + n_in
                + n_l
                + d.aig.outputs.len()
                + d.aig.bad.len()
                + d.aig.constraints.len()
                + d.aig.justice.len()
                + d.aig.justice.iter().map(|j| j.len()).sum::<usize>()
                + d.aig.fairness.len();
            let defs: Vec<&Tok> = nums
                .iter()
                .copied()
                .filter(|t| {
                    let first_of_item = r.toks.iter().find(|u| u.item == t.item).map(|u| u.start) == Some(t.start);
                    first_of_item
                        && ((t.item >= 1 && t.item < 1 + n_in + n_l)
                            || (t.item >= before_ands && t.item < before_ands + d.aig.ands.len()))
                })
                .collect();
            let t = pick_tok(&defs, c.pick)?;
            let old: u128 = std::str::from_utf8(&bytes[t.start..t.end]).ok()?.parse().ok()?;
            // constant false, constant true, or the negated literal of the variable
            let s = match c.arg % 3 {
                0 => "0".to_string(),
                1 => "1".to_string(),
                _ => (old | 1).to_string(),
            };
            Some(replace(bytes, t, s.as_bytes()))
        }
        "aiger-symbol-index-beyond-section" => {
            let Doc::Aiger(d) = &c.doc else { return None };
            if binary {
                return None;
            }
            let syms: Vec<&Tok> = r
                .toks
                .iter()
                .filter(|t| t.role == Role::Keyword && t.item > 0 && t.end - t.start >= 2 && bytes[t.start + 1].is_ascii_digit())
                .filter(usable)
                .collect();
            let t = pick_tok(&syms, c.pick)?;
            let a = &d.aig;
            let count = match bytes[t.start] {
                b'i' => a.inputs.len(),
                b'o' => a.outputs.len(),
                b'l' => a.latches.len(),
                b'b' => a.bad.len(),
                b'c' => a.constraints.len(),
                b'j' => a.justice.len(),
                _ => a.fairness.len(),
            };
            let mut with = vec![bytes[t.start]];
            with.extend_from_slice((count + c.arg as usize % 3).to_string().as_bytes());
            let mut k = replace(bytes, t, &with);
            k.col_lo += 1; // the error is about the index, not the letter
            Some(k)
        }
        "fuse-with-next-token" => {
            // only separators whose removal creates an invalid word: keyword followed by anything
            let kws: Vec<&Tok> = r
                .toks
                .iter()
                .filter(|t| t.role == Role::Keyword)
                .filter(usable)
                .filter(|_t| !is_log)
                .filter(|t| {
                    // followed by exactly spaces/tabs and then another token on the same line
                    let mut e = t.end;
                    while e < bytes.len() && matches!(bytes[e], b' ' | b'\t') {
                        e += 1;
                    }
                    e > t.end && e < bytes.len() && !matches!(bytes[e], b'\n' | b'\r')
                })
                // AIGER symbol keywords are followed by the free-form name; fusing is not an error
                .filter(|t| !(spec.parser.is_aiger() && t.item > 0))
                .collect();
            let t = pick_tok(&kws, c.pick)?;
            let mut e = t.end;
            while e < bytes.len() && matches!(bytes[e], b' ' | b'\t') {
                e += 1;
            }
            let mut next_end = e;
            while next_end < bytes.len() && !matches!(bytes[next_end], b' ' | b'\t' | b'\n' | b'\r') {
                next_end += 1;
            }
            let mut b = bytes[..t.end].to_vec();
            b.extend_from_slice(&bytes[e..]);
            Some(Corrupted {
                bytes: b,
                line: t.line,
                col_lo: t.col,
                col_hi: t.col + (t.end - t.start) + (next_end - e) - 1,
            })
        }
        "aiger-name-invalid-utf8" => {
            if binary {
                return None;
            }
            let names: Vec<&Tok> = r.toks.iter().filter(|t| t.role == Role::Name).filter(usable).collect();
            let t = pick_tok(&names, c.pick)?;
            let name = &bytes[t.start..t.end];
            // insert at a character boundary
            let s = std::str::from_utf8(name).ok()?;
            let mut at = (c.arg as usize * (name.len() + 1)) >> 16;
            while !s.is_char_boundary(at) {
                at -= 1;
            }
            let bad: &[u8] = [&[0xffu8][..], &[0xc3], &[0x80], &[0xf0, 0x9f]][c.arg as usize % 4];
            let mut with = name[..at].to_vec();
            with.extend_from_slice(bad);
            with.extend_from_slice(&name[at..]);
            // a lone lead byte right before valid continuation-like bytes could combine; keep it simple
            if std::str::from_utf8(&with).is_ok() {
                return None;
            }
            let valid_up_to = std::str::from_utf8(&with).err()?.valid_up_to();
            let mut k = replace(bytes, t, &with);
            k.col_lo = t.col + valid_up_to;
            k.col_hi = t.col + with.len() - 1;
            Some(k)
        }
        "btor2-unknown-keyword" => {
            if spec.parser != ParserId::Btor2 {
                return None;
            }
            let kws: Vec<&Tok> = r.toks.iter().filter(|t| t.role == Role::Keyword).filter(usable).collect();
            let t = pick_tok(&kws, c.pick)?;
            let old = &bytes[t.start..t.end];
            let with: Vec<u8> = match c.arg % 4 {
                0 => b"frobnicate".to_vec(),
                1 => {
                    let mut w = old.to_vec();
                    w.push(b'q');
                    w
                }
                2 => old.to_ascii_uppercase(),
                _ => {
                    let mut w = old.to_vec();
                    w.insert(0, b'z');
                    w
                }
            };
            Some(replace(bytes, t, &with))
        }
        "dimacs-literal-at-type-minimum" => {
            // -2^63 (and neighbours, and the narrower types' minima): representable while scanning,
            // not a literal - with and without a declared variable count
            let Doc::Dimacs(d) = &c.doc else { return None };
            let first_clause_item = d.header.is_some() as usize;
            let lits: Vec<&Tok> = r
                .toks
                .iter()
                .filter(|t| t.role == Role::Num && t.item >= first_clause_item && t.item != usize::MAX)
                .filter(usable)
                .filter(|t| {
                    d.kind == ParserId::Cnf
                        || r.toks.iter().find(|u| u.item == t.item && u.role == Role::Num).map(|u| u.start) != Some(t.start)
                })
                .collect();
            let t = pick_tok(&lits, c.pick)?;
            let s = ["-9223372036854775808", "-9223372036854775809", "9223372036854775808", "-2147483648", "-32768", "-128"][c.arg as usize % 6];
            let v: i128 = s.parse().ok()?;
            if v.abs() <= spec.max_dimacs() {
                return None;
            }
            Some(replace(bytes, t, s.as_bytes()))
        }
        "aiger-leading-zero" => {
            // AIGER numbers are written without leading zeros: "07", "00" are rejected on the token
            let Doc::Aiger(_) = &c.doc else { return None };
            let t = pick_tok(&nums, c.pick)?;
            let mut with = vec![b'0'; 1 + (c.arg as usize % 3)];
            with.extend_from_slice(&bytes[t.start..t.end]);
            Some(replace(bytes, t, &with))
        }
        "aiger-binary-delta-too-large" => {
            // a delta code of several bytes whose value exceeds every reference code of the file;
            // the and-gate section has no line structure: one line, columns count bytes
            let Doc::Aiger(d) = &c.doc else { return None };
            if !d.binary || limit == usize::MAX || d.aig.max_var_index >= 1 << 38 {
                return None;
            }
            let deltas: Vec<&Tok> = r.toks.iter().filter(|t| t.role == Role::Delta).collect();
            let t = pick_tok(&deltas, c.pick)?;
            let mut v: u64 = (1 << 40) + c.arg as u64;
            let mut code = vec![];
            loop {
                let b = (v & 0x7f) as u8;
                v >>= 7;
                if v == 0 {
                    code.push(b);
                    break;
                }
                code.push(b | 0x80);
            }
            let mut k = replace(bytes, t, &code);
            k.line = bytes[..limit].iter().filter(|&&b| b == b'\n').count() + 1;
            k.col_lo = t.start - limit + 1;
            k.col_hi = k.col_lo + code.len() - 1;
            Some(k)
        }
        "aiger-latch-init-invalid" => {
            // an in-range initialisation literal that is neither 0, 1 nor the latch itself
            let Doc::Aiger(d) = &c.doc else { return None };
            if d.aig.max_var_index < 2 {
                return None;
            }
            let first_latch = 1 + if d.binary { 0 } else { d.aig.inputs.len() };
            let fields = if d.binary { 2 } else { 3 };
            let mut inits: Vec<(&Tok, u64)> = vec![];
            for (k, l) in d.aig.latches.iter().enumerate() {
                let toks: Vec<&Tok> = nums.iter().copied().filter(|t| t.item == first_latch + k).collect();
                if toks.len() == fields {
                    let state = if d.binary {
                        2 * (d.aig.input_count + 1 + k as u64)
                    } else {
                        l.0.unwrap_or(0)
                    };
                    inits.push((toks[fields - 1], state));
                }
            }
            if inits.is_empty() {
                return None;
            }
            let (t, state) = inits[(c.pick as usize * inits.len()) >> 16];
            let max_lit = 2 * d.aig.max_var_index + 1;
            let mut v = 2 + c.arg as u64 % (max_lit - 1);
            if v == state {
                v = if v + 1 <= max_lit { v + 1 } else { v - 1 };
            }
            if v < 2 || v == state {
                return None;
            }
            Some(replace(bytes, t, v.to_string().as_bytes()))
        }
        "btor2-zero-id" => {
            if spec.parser != ParserId::Btor2 {
                return None;
            }
            let ids: Vec<&Tok> = nums
                .iter()
                .copied()
                .filter(|t| r.toks.iter().find(|u| u.item == t.item).map(|u| u.start) == Some(t.start))
                .collect();
            let t = pick_tok(&ids, c.pick)?;
            Some(replace(bytes, t, b"0"))
        }
        _ => None,
    }
}

pub fn check_exact(c: &ExactCase, obs: &mut Obs) -> CheckResult {
    let name = CORRUPTIONS[c.corruption % CORRUPTIONS.len()];
    let Some(k) = corrupt(c) else {
        obs.class("inapplicable");
        return Ok(());
    };
    obs.class(format!("corruption/{name}"));
    obs.class(format!("parser/{}", c.spec.parser.name()));
    obs.nontrivial();
    let data = Rc::new(k.bytes.clone());
    let p = c.spec.parser.name();
    for (how, feed) in [("one-shot", Feed::one_shot()), ("re-chunked", c.feed.clone())] {
        let (t, _) = drivers::run(&c.spec, data.clone(), &feed, None, false);
        match &t.fin {
            Final::Syntax { line, col, msg } => {
                if *line != k.line || *col < k.col_lo || *col > k.col_hi {
                    fail!(
                        format!("C08:{p}:{name}:wrong-place"),
                        "{} ({how}): corruption '{name}' at line {} columns {}..={} is reported at {}:{} ({}); chunk {:?}; input {:?}",
                        c.spec.describe(),
                        k.line,
                        k.col_lo,
                        k.col_hi,
                        line,
                        col,
                        msg,
                        feed.chunk,
                        show_bytes(&data)
                    );
                }
            }
            other => fail!(
                format!("C08:{p}:{name}:not-rejected"),
                "{} ({how}): corruption '{name}' at line {} columns {}..={} did not produce a syntax error but [{}]; input {:?}",
                c.spec.describe(),
                k.line,
                k.col_lo,
                k.col_hi,
                other.short(),
                show_bytes(&data)
            ),
        }
    }
    // The same document behind a preamble that the caller consumes before wrapping the reader
    // into a LineReader: "line 1 starts at the current position", so the place must not move.
    if c.arg % 4 == 0 {
        const PREAMBLE: &[u8] = b"\xEF\xBB\xBF#!magic 1.0\n\n%%\r\n";
        let n = 1 + (c.pick as usize % PREAMBLE.len());
        let mut bytes = PREAMBLE[..n].to_vec();
        bytes.extend_from_slice(&k.bytes);
        let (t, _) = drivers::run_behind_preamble(&c.spec, Rc::new(bytes), &c.feed, n, false);
        obs.class("behind-consumed-preamble");
        match &t.fin {
            Final::Syntax { line, col, .. } if *line == k.line && *col >= k.col_lo && *col <= k.col_hi => {}
            other => fail!(
                format!("C08:{p}:{name}:behind-preamble"),
                "{}: behind a {n}-byte preamble consumed before LineReader::new, corruption '{name}' at line {} columns {}..={} is reported as [{}]; input {:?}",
                c.spec.describe(),
                k.line,
                k.col_lo,
                k.col_hi,
                other.short(),
                show_bytes(&data)
            ),
        }
    }
    Ok(())
}

// ---------------------------------------------------------------------------------------------
// Part C: LineReader used directly by a hand-written scanner

#[derive(Serialize, Deserialize, Clone, Debug, PartialEq, Eq, Hash)]
pub struct ScanCase {
    /// Words separated by single blanks or line feeds; `(length, newline_after)`.
    pub words: Vec<(u16, bool)>,
    pub target: u16,
    /// 0: `give_up()` in front of the word; 1: `set_mark()` in front of it, consume it,
    /// `give_up_at(mark())`; 2: remember `position()`, consume the word,
    /// `set_mark_to_position(p)`, `give_up_at(mark())`.
    pub mode: u8,
    pub preamble: u8,
    pub feed: Feed,
}

enum ScanErr {
    Io(#[allow(dead_code)] std::io::Error),
    Syntax(flussab::text::SyntaxError),
}
impl From<std::io::Error> for ScanErr {
    fn from(e: std::io::Error) -> Self {
        ScanErr::Io(e)
    }
}
impl From<flussab::text::SyntaxError> for ScanErr {
    fn from(e: flussab::text::SyntaxError) -> Self {
        ScanErr::Syntax(e)
    }
}

pub fn check_scan(c: &ScanCase, obs: &mut Obs) -> CheckResult {
    if c.words.is_empty() {
        return Ok(());
    }
    let target = (c.target as usize * c.words.len()) >> 16;
    // the text and the target's true place
    let mut data: Vec<u8> = (0..c.preamble).map(|i| if i % 5 == 4 { b'\n' } else { b'#' }).collect();
    let (mut line, mut col) = (1usize, 1usize);
    let mut want = (0, 0, 0);
    for (i, (len, nl)) in c.words.iter().enumerate() {
        let len = (*len as usize).max(1);
        if i == target {
            want = (line, col, len);
        }
        data.extend((0..len).map(|j| b'a' + ((i + j) % 26) as u8));
        col += len;
        if *nl {
            data.push(b'\n');
            line += 1;
            col = 1;
        } else {
            data.push(b' ');
            col += 1;
        }
    }
    let (mut reader, _log) = crate::source::build_reader(Rc::new(data), &c.feed, None);
    let mut left = c.preamble as usize;
    while left > 0 {
        let got = reader.request(left).len().min(left);
        if got == 0 {
            break;
        }
        reader.advance(got);
        left -= got;
    }
    let mut lr = flussab::text::LineReader::new(reader);
    let mut idx = 0usize;
    let mut realigned_inside = false;
    let err: Option<ScanErr> = loop {
        match lr.reader.request_byte() {
            None => break None,
            Some(b'\n') => {
                lr.line_at_offset(1);
                lr.reader.advance(1);
            }
            Some(b' ') => lr.reader.advance(1),
            Some(_) => {
                let at_target = idx == target;
                let start = lr.reader.position();
                if at_target && c.mode % 3 == 0 {
                    break Some(lr.give_up("here"));
                }
                if at_target && c.mode % 3 == 1 {
                    lr.reader.set_mark();
                }
                while matches!(lr.reader.request_byte(), Some(b) if b != b' ' && b != b'\n') {
                    lr.reader.advance(1);
                }
                if at_target {
                    realigned_inside = lr.reader.position() - start > 2 * c.feed.chunk_size();
                    if c.mode % 3 == 2 {
                        lr.reader.set_mark_to_position(start);
                    }
                    let m = lr.reader.mark();
                    break Some(lr.give_up_at(m, "there"));
                }
                idx += 1;
            }
        }
    };
    obs.nontrivial();
    obs.class(format!("scanner-mode/{}", c.mode % 3));
    obs.class_if(realigned_inside, "word-longer-than-two-chunks");
    obs.class_if(c.preamble > 0, "behind-consumed-preamble");
    obs.class_if(want.0 > 1, "error-beyond-line-1");
    match err {
        Some(ScanErr::Syntax(e)) if (e.location.line, e.location.column) == (want.0, want.1) => Ok(()),
        Some(ScanErr::Syntax(e)) => fail!(
            format!("C08:linereader:mode{}", c.mode % 3),
            "hand-written scanner over LineReader (mode {}): word {} of length {} starts at {}:{}, the error is located at {}:{}; chunk {:?}, preamble {}",
            c.mode % 3,
            target,
            want.2,
            want.0,
            want.1,
            e.location.line,
            e.location.column,
            c.feed.chunk,
            c.preamble
        ),
        _ => fail!(
            format!("C08:linereader:mode{}:no-error", c.mode % 3),
            "hand-written scanner over LineReader (mode {}): no syntax error was produced for word {}",
            c.mode % 3,
            target
        ),
    }
}

fn run(ctx: &Ctx) {
    let n = ctx.share(ctx.tier.pick(300_000, 9_000_000));
    let strat = (
        proptest::collection::vec(
            (prop_oneof![8 => 1u16..=12, 2 => 13u16..=200, 1 => 200u16..=3000], proptest::bool::weighted(0.3)),
            1..24,
        ),
        any::<u16>(),
        0u8..3,
        prop_oneof![2 => Just(0u8), 1 => 1u8..=40],
        feed_strategy(),
    )
        .prop_map(|(words, target, mode, preamble, feed)| ScanCase {
            words,
            target,
            mode,
            preamble,
            feed,
        });
    ctx.run_cases("linereader-scanner", n, strat, check_scan);

    let n = ctx.share(ctx.tier.pick(1_200_000, 36_000_000));
    let strat = (input_strategy(8, true), crate::source::parser_feed_strategy()).prop_map(|(input, feed)| BoundsCase { input, feed });
    ctx.run_cases("bounds", n, strat, check_bounds);
    let n = ctx.share(ctx.tier.pick(1_000_000, 30_000_000));
    let strat = spec_strategy()
        .prop_flat_map(|spec| {
            (
                Just(spec),
                doc_strategy(spec, 6),
                choices_strategy(),
                any::<bool>(),
                0..CORRUPTIONS.len(),
                any::<u16>(),
                any::<u16>(),
                crate::source::parser_feed_strategy(),
            )
        })
        .prop_map(|(spec, doc, choices, fancy, corruption, pick, arg, feed)| {
            // pick a corruption that can apply to this format, so that few cases are inapplicable
            let fmt_ok = |k: usize| -> bool {
                let n = CORRUPTIONS[k];
                if n.starts_with("dimacs-") {
                    matches!(spec.parser, ParserId::Cnf | ParserId::Wcnf | ParserId::Gcnf)
                } else if n.starts_with("aiger-") {
                    spec.parser.is_aiger()
                } else if n.starts_with("btor2-") {
                    spec.parser == ParserId::Btor2
                } else {
                    true
                }
            };
            let mut k = corruption;
            while !fmt_ok(k) {
                k = (k + 1) % CORRUPTIONS.len();
            }
            let mut spec = spec;
            let mut doc = doc;
            if matches!(CORRUPTIONS[k], "dimacs-literal-beyond-declared" | "dimacs-group-beyond-declared") {
                // these need an enforced header with room above the declared count
                if let Doc::Dimacs(d) = &mut doc {
                    spec.flag = false;
                    let max_var = d.clauses.iter().flat_map(|(_, l)| l.iter()).map(|l| l.unsigned_abs()).max().unwrap_or(0);
                    let max_group = d.clauses.iter().map(|(g, _)| *g).max().unwrap_or(0);
                    if (max_var as i128) < spec.max_dimacs() && max_group < u64::MAX - 1 {
                        let third = if d.kind == ParserId::Gcnf { max_group.max(1) } else { d.header.map_or(7, |h| h.2) };
                        d.header = Some((max_var.max(1), d.clauses.len() as u64, third));
                    }
                }
            }
            ExactCase {
                spec,
                doc,
                choices,
                fancy,
                corruption: k,
                pick,
                arg,
                feed,
            }
        });
    ctx.run_cases("exact", n, strat, check_exact);
}

fn replay(oracle: &str, v: &Value) -> Option<CheckResult> {
    match oracle {
        "bounds" => Some(match replay_from_file::<BoundsCase>(v) {
            Ok(c) => check_bounds(&c, &mut Obs::default()),
            Err(e) => Err(Failure::new("C08:decode", e)),
        }),
        "linereader-scanner" => Some(match replay_from_file::<ScanCase>(v) {
            Ok(c) => check_scan(&c, &mut Obs::default()),
            Err(e) => Err(Failure::new("C08:decode", e)),
        }),
        "exact" => Some(match replay_from_file::<ExactCase>(v) {
            Ok(c) => check_exact(&c, &mut Obs::default()),
            Err(e) => Err(Failure::new("C08:decode", e)),
        }),
        _ => None,
    }
}

//! C07 — DIMACS-family and solver-log parsing is independent of layout.
use std::rc::Rc;

use proptest::prelude::*;
use serde::{Deserialize, Serialize};
use serde_json::Value;

use super::PropDef;
use crate::drivers::{self, Final, ParserId, Spec};
use crate::engine::{replay_from_file, show_bytes, CheckResult, Ctx, Failure, Obs};
use crate::fail;
use crate::gen::{choices_strategy, doc_strategy, Doc};
use crate::source::Feed;

pub fn def() -> PropDef {
    PropDef {
        id: "C07",
        level: "exploration",
        profiles: &["checked", "fast"],
        abort_is_violation: false,
        rule: "abstract formulas (cnf/wcnf/gcnf, with and without header, for i8..isize) and solver logs are \
               rendered by an independent layout renderer driven by a proptest-drawn choice stream: leading \
               spaces/tabs, 1+ spaces/tabs between tokens, trailing whitespace, LF or CRLF per line, blank and \
               comment lines before the header / between statements / inside a split clause, clauses broken at any \
               literal (and after the weight/group), leading zeros, '-0'/'00' terminators, missing final newline; \
               logs: comment lines anywhere, value lines split anywhere, empty value lines, solution line \
               before/between/after, terminating zero on its own line, and (with ignore_unknown_lines) junk lines. \
               Oracle: the parsed header/clauses/log equal the abstract value, one-shot and under a generated \
               feed. Non-trivial: the rendering used >= 3 distinct layout features including at least one that \
               interacts with a clause/value-line split (comment or blank inside a clause, CRLF, split values). \
               Distinct by hash; the evidence lists per-feature and per-pair counts.",
        assumptions: &[
            "the layout grammar only contains choices that the parsers' documentation or unit tests grant (not: text after the header's last field, two clauses per line, lone CR, '{ 1}', form feeds)",
        ],
        exhaustive: |_| false,
        run,
        replay,
    }
}

#[derive(Serialize, Deserialize, Clone, Debug, PartialEq, Eq, Hash)]
pub struct Case {
    pub spec: Spec,
    pub doc: Doc,
    #[serde(with = "crate::engine::hexbytes")]
    pub choices: Vec<u8>,
    pub feed: Feed,
}

pub fn check(c: &Case, obs: &mut Obs) -> CheckResult {
    let spec = c.spec;
    let junk = spec.parser == ParserId::Log && spec.flag;
    let r = c.doc.render(&c.choices, true, junk);
    let want = c.doc.expected(&spec);
    let data = Rc::new(r.bytes.clone());
    obs.class(format!("parser/{}", spec.parser.name()));
    obs.class(format!("lit/{}", spec.lit_name()));
    let mut fs = r.features.clone();
    fs.sort();
    for f in &fs {
        obs.class(format!("feature/{f}"));
    }
    for i in 0..fs.len() {
        for j in i + 1..fs.len() {
            obs.class(format!("pair/{}+{}", fs[i], fs[j]));
        }
    }
    let interacting = fs.iter().any(|f| {
        matches!(
            *f,
            "comment-inside-clause" | "blank-inside-clause" | "crlf" | "split-clause" | "split-values" | "break-after-weight" | "zero-on-own-line" | "unknown-line"
        )
    });
    if fs.len() >= 3 && interacting {
        obs.nontrivial();
    }
    for (name, feed) in [("one-shot", Feed::one_shot()), ("re-chunked", c.feed.clone())] {
        let (t, _) = drivers::run(&spec, data.clone(), &feed, None, true);
        let p = spec.parser.name();
        if t.fin != Final::End {
            fail!(
                format!("C07:{p}:rejected"),
                "{} ({name}): a rendering that only uses granted layout choices {:?} was rejected: {}; text {:?}",
                spec.describe(),
                fs,
                t.fin.short(),
                show_bytes(&data)
            );
        }
        if t.items != want {
            let i = t
                .items
                .iter()
                .zip(want.iter())
                .position(|(a, b)| a != b)
                .unwrap_or(t.items.len().min(want.len()));
            fail!(
                format!("C07:{p}:value"),
                "{} ({name}): item {} parsed as {:?}, the rendered value has {:?} ({} vs {} items); layout features {:?}; text {:?}",
                spec.describe(),
                i,
                t.items.get(i),
                want.get(i),
                t.items.len(),
                want.len(),
                fs,
                show_bytes(&data)
            );
        }
    }
    Ok(())
}

// ---------------------------------------------------------------------------------------------
// Scale: thousands of blank / comment lines between two tokens of one clause

#[derive(Serialize, Deserialize, Clone, Debug, PartialEq, Eq, Hash)]
pub struct ScaleCase {
    pub spec: Spec,
    pub doc: Doc,
    /// Selects the clause token behind which the filler goes.
    pub pick: u16,
    /// 0 blank lines, 1 comment lines, 2 lines of blanks and tabs, 3 CRLF blank lines, 4 empty comments.
    pub filler: u8,
    pub n: u32,
}

pub fn check_scale(c: &ScaleCase, obs: &mut Obs) -> CheckResult {
    let Doc::Dimacs(d) = &c.doc else { return Ok(()) };
    let spec = c.spec;
    let r = c.doc.render(&[], false, false);
    let first_clause_item = d.header.is_some() as usize;
    let body: Vec<&crate::gen::Tok> = r
        .toks
        .iter()
        .filter(|t| t.item != usize::MAX && t.item >= first_clause_item && matches!(t.role, crate::gen::Role::Num | crate::gen::Role::Term0))
        .collect();
    if body.is_empty() {
        obs.class("no-clause-token");
        return Ok(());
    }
    let t = body[(c.pick as usize * body.len()) >> 16];
    let piece: &[u8] = [&b"\n"[..], b"\nc x", b"\n \t ", b"\r\n", b"\nc"][c.filler as usize % 5];
    let mut bytes = r.bytes[..t.end].to_vec();
    for _ in 0..c.n {
        bytes.extend_from_slice(piece);
    }
    bytes.extend_from_slice(b"\n");
    bytes.extend_from_slice(&r.bytes[t.end..]);
    obs.class(format!("parser/{}", spec.parser.name()));
    obs.class(format!("filler/{}", c.filler % 5));
    obs.class(if t.role == crate::gen::Role::Term0 { "between-clauses" } else { "inside-a-clause" });
    obs.class(match c.n {
        0..=9_999 => "lines/<10^4",
        10_000..=99_999 => "lines/10^4..10^5",
        _ => "lines/>=10^5",
    });
    obs.nontrivial();
    let want = c.doc.expected(&spec);
    let (tr, _) = crate::engine::on_small_stack(move || drivers::run(&spec, Rc::new(bytes), &Feed::one_shot(), None, true));
    let p = spec.parser.name();
    if tr.fin != Final::End || tr.items != want {
        fail!(
            format!("C07:{p}:scale"),
            "{}: {} filler lines of kind {} behind the token at {}:{} changed the result: {} after {} item(s), expected a clean end with {} item(s); document without the filler {:?}",
            spec.describe(),
            c.n,
            c.filler % 5,
            t.line,
            t.col,
            tr.fin.short(),
            tr.items.len(),
            want.len(),
            show_bytes(&r.bytes)
        );
    }
    Ok(())
}

fn scale_strategy() -> impl Strategy<Value = ScaleCase> {
    let parsers = vec![ParserId::Cnf, ParserId::Wcnf, ParserId::Gcnf];
    (proptest::sample::select(parsers), 0u8..5, any::<bool>())
        .prop_flat_map(|(parser, lit, flag)| {
            let spec = Spec { parser, lit, flag };
            (
                Just(spec),
                doc_strategy(spec, 5),
                any::<u16>(),
                0u8..5,
                prop_oneof![3 => 1_000u32..20_000, 2 => 20_000u32..150_000, 1 => 150_000u32..400_000],
            )
        })
        .prop_map(|(spec, doc, pick, filler, n)| ScaleCase { spec, doc, pick, filler, n })
}

fn run(ctx: &Ctx) {
    // Scale cases run in every shard; they are all the unoptimised extra shard runs.
    if ctx.profile == "unopt" {
        ctx.run_cases("layout-scale", ctx.tier.pick(240, 1_200), scale_strategy(), check_scale);
        return;
    }
    ctx.run_cases("layout-scale", ctx.share(ctx.tier.pick(1_600, 16_000)), scale_strategy(), check_scale);
    let n = ctx.share(ctx.tier.pick(1_200_000, 120_000_000));
    let parsers = vec![ParserId::Cnf, ParserId::Wcnf, ParserId::Gcnf, ParserId::Log];
    let strat = (proptest::sample::select(parsers), 0u8..5, any::<bool>())
        .prop_flat_map(|(parser, lit, flag)| {
            let spec = Spec { parser, lit, flag };
            (Just(spec), doc_strategy(spec, 8), choices_strategy(), crate::source::parser_feed_strategy())
        })
        .prop_map(|(mut spec, doc, choices, feed)| {
            // a DIMACS header generated as consistent stays enforced; ignore_header must not matter
            if let Doc::Dimacs(_) = &doc {
                spec.flag = spec.flag && choices.first().map_or(false, |c| c % 2 == 0);
            }
            Case { spec, doc, choices, feed }
        });
    ctx.run_cases("layout", n, strat, check);
}

fn replay(oracle: &str, v: &Value) -> Option<CheckResult> {
    match oracle {
        "layout-scale" => Some(match replay_from_file::<ScaleCase>(v) {
            Ok(c) => check_scale(&c, &mut Obs::default()),
            Err(e) => Err(Failure::new("C07:decode", e)),
        }),
        "layout" => Some(match replay_from_file::<Case>(v) {
            Ok(c) => check(&c, &mut Obs::default()),
            Err(e) => Err(Failure::new("C07:decode", e)),
        }),
        _ => None,
    }
}

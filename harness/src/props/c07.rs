//! C07 — DIMACS-family and solver-log parsing is independent of layout.
use std::rc::Rc;

use proptest::prelude::*;
use serde::{Deserialize, Serialize};
use serde_json::Value;

use super::PropDef;
use crate::drivers::{self, Final, ParserId, Spec};
use crate::engine::{replay_from_file, show_bytes, CheckResult, Ctx, Failure, Obs};
use crate::fail;
use crate::gen::{choices_strategy, doc_strategy, Doc};
use crate::source::{feed_strategy, Feed};

pub fn def() -> PropDef {
    PropDef {
        id: "C07",
        level: "exploration",
        profiles: &["checked", "fast"],
        abort_is_violation: false,
        rule: "abstract formulas (cnf/wcnf/gcnf, with and without header, for i8..isize) and solver logs are \
               rendered by an independent layout renderer driven by a proptest-drawn choice stream: leading \
               spaces/tabs, 1+ spaces/tabs between tokens, trailing whitespace, LF or CRLF per line, blank and \
               comment lines before the header / between statements / inside a split clause, clauses broken at any \
               literal (and after the weight/group), leading zeros, '-0'/'00' terminators, missing final newline; \
               logs: comment lines anywhere, value lines split anywhere, empty value lines, solution line \
               before/between/after, terminating zero on its own line, and (with ignore_unknown_lines) junk lines. \
               Oracle: the parsed header/clauses/log equal the abstract value, one-shot and under a generated \
               feed. Non-trivial: the rendering used >= 3 distinct layout features including at least one that \
               interacts with a clause/value-line split (comment or blank inside a clause, CRLF, split values). \
               Distinct by hash; the evidence lists per-feature and per-pair counts.",
        assumptions: &[
            "the layout grammar only contains choices that the parsers' documentation or unit tests grant (not: text after the header's last field, two clauses per line, lone CR, '{ 1}', form feeds)",
        ],
        exhaustive: |_| false,
        run,
        replay,
    }
}

#[derive(Serialize, Deserialize, Clone, Debug, PartialEq, Eq, Hash)]
pub struct Case {
    pub spec: Spec,
    pub doc: Doc,
    #[serde(with = "crate::engine::hexbytes")]
    pub choices: Vec<u8>,
    pub feed: Feed,
}

pub fn check(c: &Case, obs: &mut Obs) -> CheckResult {
    let spec = c.spec;
    let junk = spec.parser == ParserId::Log && spec.flag;
    let r = c.doc.render(&c.choices, true, junk);
    let want = c.doc.expected(&spec);
    let data = Rc::new(r.bytes.clone());
    obs.class(format!("parser/{}", spec.parser.name()));
    obs.class(format!("lit/{}", spec.lit_name()));
    let mut fs = r.features.clone();
    fs.sort();
    for f in &fs {
        obs.class(format!("feature/{f}"));
    }
    for i in 0..fs.len() {
        for j in i + 1..fs.len() {
            obs.class(format!("pair/{}+{}", fs[i], fs[j]));
        }
    }
    let interacting = fs.iter().any(|f| {
        matches!(
            *f,
            "comment-inside-clause" | "blank-inside-clause" | "crlf" | "split-clause" | "split-values" | "break-after-weight" | "zero-on-own-line" | "unknown-line"
        )
    });
    if fs.len() >= 3 && interacting {
        obs.nontrivial();
    }
    for (name, feed) in [("one-shot", Feed::one_shot()), ("re-chunked", c.feed.clone())] {
        let (t, _) = drivers::run(&spec, data.clone(), &feed, None, true);
        let p = spec.parser.name();
        if t.fin != Final::End {
            fail!(
                format!("C07:{p}:rejected"),
                "{} ({name}): a rendering that only uses granted layout choices {:?} was rejected: {}; text {:?}",
                spec.describe(),
                fs,
                t.fin.short(),
                show_bytes(&data)
            );
        }
        if t.items != want {
            let i = t
                .items
                .iter()
                .zip(want.iter())
                .position(|(a, b)| a != b)
                .unwrap_or(t.items.len().min(want.len()));
            fail!(
                format!("C07:{p}:value"),
                "{} ({name}): item {} parsed as {:?}, the rendered value has {:?} ({} vs {} items); layout features {:?}; text {:?}",
                spec.describe(),
                i,
                t.items.get(i),
                want.get(i),
                t.items.len(),
                want.len(),
                fs,
                show_bytes(&data)
            );
        }
    }
    Ok(())
}

fn run(ctx: &Ctx) {
    let n = ctx.share(ctx.tier.pick(1_200_000, 120_000_000));
    let parsers = vec![ParserId::Cnf, ParserId::Wcnf, ParserId::Gcnf, ParserId::Log];
    let strat = (proptest::sample::select(parsers), 0u8..5, any::<bool>())
        .prop_flat_map(|(parser, lit, flag)| {
            let spec = Spec { parser, lit, flag };
            (Just(spec), doc_strategy(spec, 8), choices_strategy(), feed_strategy())
        })
        .prop_map(|(mut spec, doc, choices, feed)| {
            // a DIMACS header generated as consistent stays enforced; ignore_header must not matter
            if let Doc::Dimacs(_) = &doc {
                spec.flag = spec.flag && choices.first().map_or(false, |c| c % 2 == 0);
            }
            Case { spec, doc, choices, feed }
        });
    ctx.run_cases("layout", n, strat, check);
}

fn replay(oracle: &str, v: &Value) -> Option<CheckResult> {
    match oracle {
        "layout" => Some(match replay_from_file::<Case>(v) {
            Ok(c) => check(&c, &mut Obs::default()),
            Err(e) => Err(Failure::new("C07:decode", e)),
        }),
        _ => None,
    }
}

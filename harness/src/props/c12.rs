//! C12 — AIG renumbering preserves the circuit and yields a binary-legal order.
use std::collections::HashMap;
use std::panic::{catch_unwind, AssertUnwindSafe};
use std::rc::Rc;

use flussab_aiger::aig::{Aig, AigStructureError, OrderedAig, Renumber, RenumberConfig};
use flussab_aiger::Lit;
use proptest::prelude::*;
use serde::{Deserialize, Serialize};
use serde_json::Value;

use super::PropDef;
use crate::drivers::{self, ordered_owned, AigOwned, Final, Item, ParserId, Spec};
use crate::engine::{panic_message, replay_from_file, CheckResult, Ctx, Failure, Obs};
use crate::inputs::{to_aig, write_aiger_with_crate, AigWriter};
use crate::source::Feed;
use crate::{ensure, fail};

pub fn def() -> PropDef {
    PropDef {
        id: "C12",
        level: "exploration",
        profiles: &["checked", "fast"],
        abort_is_violation: true,
        rule: "well-formed AIGs: generated numbers of inputs/latches/gates, a random permutation of variable \
               indices with gaps, shuffled gate order, inputs with random negations, constants and x/!x/x,x pairs as \
               gate inputs, duplicate gates, unreachable gates, 0..3 of every root section, all 8 option \
               combinations, literal types u8/u16/u32/u64/usize, with the variables optionally renamed (mirrored to the last variables of the type, sparse with groups agreeing modulo 2^32, spread by a large stride); plus deep chains/trees of 10^4..10^6 gates and graphs that use every variable of u8 / u16. Oracle: (a) \
               structure - input and latch counts preserved, max_var_index = I+L+A', every gate's inputs below its \
               code with the larger first, all literals <= 2M+1, the binary writer accepts the result and the binary \
               parser returns it unchanged; (b) function - an independent iterative simulator evaluates original \
               and result on all 2^(I+L) assignments (64-bit truth-table words) when I+L <= 6, else on 256 random \
               assignments: every output, latch next-state, bad, constraint, justice and fairness literal agrees, \
               reset values are preserved, and orig(l) = new(map(l)) for every literal in the returned map. \
               Ill-formed AIGs: exactly one injected defect (combinational cycle of length 1..8, undefined literal, \
               double definition input/input, input/gate, gate/gate, latch/input, latch/gate, latch/latch incl. \
               complemented forms and constants): the matching error whenever the defect is in the cone of a root \
               or trim is off, otherwise that error or a result passing (a)+(b). Non-trivial: >= 3 gates, >= 1 \
               negated edge, >= 1 root (or an injected defect). Distinct by hash.",
        assumptions: &[
            "above 6 inputs+latches equivalence is checked by 256 random patterns (a wrong gate survives with negligible but non-zero probability)",
            "gate outputs, input and latch literals are even and non-zero (what AIGER files can express)",
        ],
        exhaustive: |_| false,
        run,
        replay,
    }
}

#[derive(Serialize, Deserialize, Clone, Debug, PartialEq, Eq, Hash)]
pub struct Case {
    pub aig: AigOwned,
    pub trim: bool,
    pub strash: bool,
    pub fold: bool,
    pub lit: u8,
    /// "", "cycle", "undefined", "double"
    pub defect: String,
    pub patterns_seed: u64,
}

// ---------------------------------------------------------------------------------------------
// Independent simulator

#[derive(Clone, Copy)]
enum Def {
    Input(usize),
    Latch(usize),
    Gate(u64, u64),
}

struct Sim {
    defs: HashMap<u64, Def>, // variable index -> definition
    words: Vec<[u64; 4]>,    // pattern words per input/latch index (inputs first)
    n_in: usize,
    memo: HashMap<u64, [u64; 4]>,
}

fn pattern_words(n_vars: usize, seed: u64) -> Vec<[u64; 4]> {
    // exhaustive truth-table words for <= 6 variables (repeated in all 4 lanes), random otherwise
    const TT: [u64; 6] = [
        0xAAAA_AAAA_AAAA_AAAA,
        0xCCCC_CCCC_CCCC_CCCC,
        0xF0F0_F0F0_F0F0_F0F0,
        0xFF00_FF00_FF00_FF00,
        0xFFFF_0000_FFFF_0000,
        0xFFFF_FFFF_0000_0000,
    ];
    let mut v = vec![];
    let mut x = seed | 1;
    for k in 0..n_vars {
        if n_vars <= 6 {
            v.push([TT[k]; 4]);
        } else {
            let mut w = [0u64; 4];
            for lane in &mut w {
                x ^= x << 13;
                x ^= x >> 7;
                x ^= x << 17;
                *lane = x;
            }
            v.push(w);
        }
    }
    v
}

impl Sim {
    fn from_original(a: &AigOwned, words: &[[u64; 4]]) -> Sim {
        let mut defs = HashMap::new();
        for (k, &l) in a.inputs.iter().enumerate() {
            defs.insert(l >> 1, Def::Input(k));
        }
        for (k, l) in a.latches.iter().enumerate() {
            defs.insert(l.0.unwrap_or(0) >> 1, Def::Latch(k));
        }
        for g in &a.ands {
            defs.insert(g.0.unwrap_or(0) >> 1, Def::Gate(g.1, g.2));
        }
        Sim {
            defs,
            words: words.to_vec(),
            n_in: a.inputs.len(),
            memo: HashMap::new(),
        }
    }

    /// Evaluates a literal iteratively. None: undefined variable or cycle encountered.
    fn eval(&mut self, lit: u64) -> Option<[u64; 4]> {
        let flip = |w: [u64; 4], neg: bool| if neg { [!w[0], !w[1], !w[2], !w[3]] } else { w };
        if lit >> 1 == 0 {
            return Some(flip([0; 4], lit & 1 == 1));
        }
        let mut stack: Vec<(u64, bool)> = vec![(lit >> 1, false)];
        let mut on_path: std::collections::HashSet<u64> = Default::default();
        while let Some((var, expanded)) = stack.pop() {
            if self.memo.contains_key(&var) {
                continue;
            }
            match *self.defs.get(&var)? {
                Def::Input(k) => {
                    self.memo.insert(var, self.words[k]);
                }
                Def::Latch(k) => {
                    self.memo.insert(var, self.words[self.n_in + k]);
                }
                Def::Gate(a, b) => {
                    if expanded {
                        let va = if a >> 1 == 0 { [0; 4] } else { *self.memo.get(&(a >> 1))? };
                        let vb = if b >> 1 == 0 { [0; 4] } else { *self.memo.get(&(b >> 1))? };
                        let va = flip(va, a & 1 == 1);
                        let vb = flip(vb, b & 1 == 1);
                        self.memo
                            .insert(var, [va[0] & vb[0], va[1] & vb[1], va[2] & vb[2], va[3] & vb[3]]);
                        on_path.remove(&var);
                    } else {
                        if !on_path.insert(var) {
                            return None; // cycle
                        }
                        stack.push((var, true));
                        for c in [a, b] {
                            if c >> 1 != 0 && !self.memo.contains_key(&(c >> 1)) {
                                if on_path.contains(&(c >> 1)) {
                                    return None;
                                }
                                stack.push((c >> 1, false));
                            }
                        }
                    }
                }
            }
        }
        Some(flip(*self.memo.get(&(lit >> 1))?, lit & 1 == 1))
    }
}

/// Evaluates all variables of an ordered AIG; index = variable.
fn eval_ordered(o: &AigOwned, words: &[[u64; 4]]) -> Result<Vec<[u64; 4]>, String> {
    let i = o.input_count as usize;
    let l = o.latches.len();
    let mut vals: Vec<[u64; 4]> = vec![[0; 4]];
    for k in 0..i + l {
        vals.push(words[k]);
    }
    for (g, &(_, a, b)) in o.ands.iter().enumerate() {
        let var = i + l + g + 1;
        let get = |x: u64, vals: &Vec<[u64; 4]>| -> Result<[u64; 4], String> {
            let v = (x >> 1) as usize;
            if v >= var {
                return Err(format!("gate {g} (code {}) has input {x} that is not below it", 2 * var));
            }
            let w = vals[v];
            Ok(if x & 1 == 1 { [!w[0], !w[1], !w[2], !w[3]] } else { w })
        };
        let va = get(a, &vals)?;
        let vb = get(b, &vals)?;
        vals.push([va[0] & vb[0], va[1] & vb[1], va[2] & vb[2], va[3] & vb[3]]);
    }
    Ok(vals)
}

fn lit_val(vals: &[[u64; 4]], lit: u64) -> Option<[u64; 4]> {
    let w = *vals.get((lit >> 1) as usize)?;
    Some(if lit & 1 == 1 { [!w[0], !w[1], !w[2], !w[3]] } else { w })
}

// ---------------------------------------------------------------------------------------------

enum Outcome {
    /// (ordered result, literal map probes, `Aig::from(ordered)`)
    Ok(AigOwned, Vec<(u64, bool, Option<u64>)>, AigOwned),
    Err(&'static str, u64),
    Panic(String),
    /// `Renumber::new` + accessors disagrees with `renumber_aig`.
    EntryPointsDisagree(String),
}

fn renumber<L: Lit>(c: &Case, probe: &[u64]) -> Outcome {
    let aig: Aig<L> = to_aig(&c.aig);
    let make_cfg = || RenumberConfig::default().trim(c.trim).structural_hash(c.strash).const_fold(c.fold);
    let r = catch_unwind(AssertUnwindSafe(|| Renumber::<L>::renumber_aig(make_cfg(), &aig)));
    match r {
        Err(p) => Outcome::Panic(panic_message(&p)),
        Ok(Err(e)) => match e {
            _ if !matches!(catch_unwind(AssertUnwindSafe(|| Renumber::<L>::new(make_cfg(), &aig).is_err())), Ok(true)) => {
                Outcome::EntryPointsDisagree("renumber_aig rejects a graph that Renumber::new accepts (or Renumber::new panicked)".into())
            }
            AigStructureError::LitAlreadyDefined { lit } => Outcome::Err("double", lit.code() as u64),
            AigStructureError::LitNotDefined { lit } => Outcome::Err("undefined", lit.code() as u64),
            AigStructureError::FoundCycle { lit } => Outcome::Err("cycle", lit.code() as u64),
        },
        Ok(Ok((ordered, ren))) => {
            let ordered: OrderedAig<L> = ordered;
            // the other public entry point: Renumber::new, then the accessors
            match catch_unwind(AssertUnwindSafe(|| Renumber::<L>::new(make_cfg(), &aig))) {
                Ok(Ok(other)) => {
                    if other.and_gates() != &ordered.and_gates[..] {
                        return Outcome::EntryPointsDisagree(format!(
                            "Renumber::new(..).and_gates() has {} gates, renumber_aig returned {} (or they differ in content)",
                            other.and_gates().len(),
                            ordered.and_gates.len()
                        ));
                    }
                    for &l in probe {
                        let lit = L::from_code(l as usize);
                        if other.lit_map().get(lit).map(|m| m.code()) != ren.lit_map().get(lit).map(|m| m.code()) {
                            return Outcome::EntryPointsDisagree(format!(
                                "lit_map of Renumber::new(..) sends {l} to {:?}, that of renumber_aig to {:?}",
                                other.lit_map().get(lit).map(|m| m.code()),
                                ren.lit_map().get(lit).map(|m| m.code())
                            ));
                        }
                    }
                }
                Ok(Err(_)) => return Outcome::EntryPointsDisagree("Renumber::new rejects a graph that renumber_aig accepts".into()),
                Err(p) => return Outcome::EntryPointsDisagree(format!("Renumber::new panicked: {}", panic_message(&p))),
            }
            let map = ren.lit_map();
            let mapped = probe
                .iter()
                .map(|&l| {
                    let lit = L::from_code(l as usize);
                    (l, map.contains_key(lit), map.get(lit).map(|m| m.code() as u64))
                })
                .collect();
            let plain: Aig<L> = Aig::from(ordered.clone());
            Outcome::Ok(ordered_owned(&ordered), mapped, drivers::aig_owned(&plain))
        }
    }
}

/// Does evaluating every root of the original succeed (i.e. no defect in any root's cone)?
fn roots(a: &AigOwned) -> Vec<u64> {
    let mut r: Vec<u64> = a.latches.iter().map(|l| l.1).collect();
    r.extend(&a.outputs);
    r.extend(&a.bad);
    r.extend(&a.constraints);
    for j in &a.justice {
        r.extend(j);
    }
    r.extend(&a.fairness);
    r
}

pub fn check(c: &Case, obs: &mut Obs) -> CheckResult {
    let a = &c.aig;
    let n_vars = a.inputs.len() + a.latches.len();
    let words = pattern_words(n_vars, c.patterns_seed);
    // literals to probe in the literal map: constants and both polarities of every defined variable
    let mut probe: Vec<u64> = vec![0, 1];
    for &l in &a.inputs {
        probe.extend([l, l ^ 1]);
    }
    for l in &a.latches {
        let s = l.0.unwrap_or(0);
        probe.extend([s, s ^ 1]);
    }
    for g in &a.ands {
        let o = g.0.unwrap_or(0);
        probe.extend([o, o ^ 1]);
    }
    let outcome = match c.lit % 5 {
        0 => renumber::<u16>(c, &probe),
        1 => renumber::<u32>(c, &probe),
        2 => renumber::<usize>(c, &probe),
        3 => renumber::<u8>(c, &probe),
        _ => renumber::<u64>(c, &probe),
    };
    obs.class(format!("lit/{}", ["u16", "u32", "usize", "u8", "u64"][(c.lit % 5) as usize]));
    let top_var = roots_and_defs_max_var(a);
    obs.class_if(top_var == max_var_of(c.lit), "numbering-reaches-the-last-variable-of-the-type");
    obs.class_if(top_var >= 1 << 32, "variables>=2^32");
    let cfg_name = format!(
        "trim={} strash={} fold={}",
        c.trim as u8, c.strash as u8, c.fold as u8
    );
    obs.class(format!("options/{cfg_name}"));
    obs.class(format!("defect/{}", if c.defect.is_empty() { "none" } else { &c.defect }));
    let negated = a.ands.iter().any(|g| g.1 & 1 == 1 || g.2 & 1 == 1);
    let all_roots = roots(a);
    if (a.ands.len() >= 3 && negated && !all_roots.is_empty()) || !c.defect.is_empty() {
        obs.nontrivial();
    }
    obs.class_if(a.ands.len() > 1000, "deep-or-large");
    let sig = |what: &str| format!("C12:{what}");

    // Reference view of the original.
    let mut sim = Sim::from_original(a, &words);
    let root_vals: Vec<Option<[u64; 4]>> = all_roots.iter().map(|&l| sim.eval(l)).collect();
    let roots_clean = root_vals.iter().all(|v| v.is_some());

    let (ordered, mapped) = match outcome {
        Outcome::Panic(msg) => fail!(sig("panic"), "renumber_aig panicked ({cfg_name}): {msg}"),
        Outcome::EntryPointsDisagree(why) => fail!(sig("entry-points"), "{why} ({cfg_name}); aig {:?}", a),
        Outcome::Err(kind, lit) => {
            if c.defect.is_empty() {
                fail!(
                    sig("spurious-error"),
                    "well-formed AIG rejected with {kind} error for literal {lit} ({cfg_name}); aig {:?}",
                    a
                );
            }
            if kind != c.defect {
                fail!(
                    sig("wrong-error-kind"),
                    "AIG with an injected '{}' defect was rejected with a '{kind}' error (literal {lit}, {cfg_name})",
                    c.defect
                );
            }
            obs.class("rejected-with-matching-error");
            return Ok(());
        }
        Outcome::Ok(o, m, plain) => {
            // `Aig::from(OrderedAig)` must make the implicit numbering explicit and change nothing else
            let want = drivers::ordered_to_plain(&o);
            if plain != want {
                fail!(
                    sig("from-ordered"),
                    "Aig::from(ordered) is {:?}, expected the ordered AIG with explicit numbering {:?}",
                    plain,
                    want
                );
            }
            (o, m)
        }
    };
    if !c.defect.is_empty() {
        // accepted although a defect was injected: only admissible when the defect cannot matter
        let reachable = !roots_clean;
        if c.defect == "double" {
            fail!(
                sig("double-definition-accepted"),
                "AIG with a doubly defined literal was accepted ({cfg_name}); aig {:?}",
                a
            );
        }
        if reachable || !c.trim {
            fail!(
                sig("defect-accepted"),
                "AIG with an injected '{}' defect {} was accepted ({cfg_name}); aig {:?}",
                c.defect,
                if reachable { "in the cone of a root" } else { "and trim off" },
                a
            );
        }
        obs.class("defect-unreachable-and-trimmed");
    }

    // (a) structure
    let i = a.inputs.len() as u64;
    let l = a.latches.len() as u64;
    ensure!(
        ordered.input_count == i && ordered.latches.len() as u64 == l,
        sig("counts"),
        "input/latch counts changed: {} inputs, {} latches -> {} inputs, {} latches",
        i,
        l,
        ordered.input_count,
        ordered.latches.len()
    );
    let m = i + l + ordered.ands.len() as u64;
    ensure!(
        ordered.max_var_index == m,
        sig("max-var-index"),
        "max_var_index is {} but I+L+A = {} ({cfg_name})",
        ordered.max_var_index,
        m
    );
    for (g, &(_, x, y)) in ordered.ands.iter().enumerate() {
        let code = 2 * (i + l + g as u64 + 1);
        if x >= code || y >= code || x < y {
            fail!(
                sig("gate-order"),
                "gate {g} (code {code}) has inputs [{x}, {y}]: not below the gate with the larger first ({cfg_name})"
            );
        }
    }
    let max_lit = 2 * m + 1;
    let new_roots = roots(&ordered);
    if let Some(bad) = new_roots.iter().find(|&&x| x > max_lit) {
        fail!(sig("literal-range"), "result uses literal {bad} > 2M+1 = {max_lit} ({cfg_name})");
    }
    ensure!(
        ordered.outputs.len() == a.outputs.len()
            && ordered.bad.len() == a.bad.len()
            && ordered.constraints.len() == a.constraints.len()
            && ordered.fairness.len() == a.fairness.len()
            && ordered.justice.iter().map(|j| j.len()).collect::<Vec<_>>()
                == a.justice.iter().map(|j| j.len()).collect::<Vec<_>>(),
        sig("root-counts"),
        "the number of roots changed ({cfg_name})"
    );
    for (k, (o, n)) in a.latches.iter().zip(ordered.latches.iter()).enumerate() {
        ensure!(o.2 == n.2, sig("reset"), "latch {k}: reset value {:?} became {:?}", o.2, n.2);
    }
    ensure!(
        ordered.symbols == a.symbols && ordered.comment == a.comment,
        sig("symbols"),
        "symbols or comment changed"
    );

    // (b) function
    let vals = match eval_ordered(&ordered, &words) {
        Ok(v) => v,
        Err(why) => fail!(sig("gate-order"), "{why} ({cfg_name})"),
    };
    for (k, (&old, &new)) in all_roots.iter().zip(new_roots.iter()).enumerate() {
        let Some(want) = root_vals[k] else { continue };
        let got = lit_val(&vals, new);
        if got != Some(want) {
            fail!(
                sig("function"),
                "root {k}: original literal {old} and renumbered literal {new} compute different functions ({cfg_name}); original {:?}; result {:?}",
                a,
                ordered
            );
        }
    }
    // the map's accessors agree with each other, for both polarities of every probed literal
    for w in mapped.chunks(2) {
        if let [(l0, c0, g0), (l1, c1, g1)] = w {
            let consistent = c0 == c1 && *c0 == g0.is_some() && *c1 == g1.is_some() && g0.map(|x| x ^ 1) == *g1;
            if !consistent {
                fail!(
                    sig("lit-map-accessors"),
                    "lit_map is inconsistent for literals {l0}/{l1}: contains_key {c0}/{c1}, get {:?}/{:?} ({cfg_name}); original {:?}",
                    g0,
                    g1,
                    a
                );
            }
        }
    }
    for (old, _, new) in mapped {
        let Some(new) = new else { continue };
        let Some(want) = sim.eval(old) else { continue };
        if lit_val(&vals, new) != Some(want) {
            fail!(
                sig("lit-map"),
                "lit_map sends {old} to {new}, which computes a different function ({cfg_name}); original {:?}; result {:?}",
                a,
                ordered
            );
        }
    }

    // binary writer/parser acceptance (skip for huge graphs: C03 covers the codec)
    if ordered.ands.len() <= 2000 {
        let lit_idx = match c.lit % 5 {
            0 => 1,
            1 => 2,
            2 => 4,
            3 => 0,
            _ => 3,
        };
        let w = catch_unwind(AssertUnwindSafe(|| write_aiger_with_crate(&ordered, lit_idx, AigWriter::BinaryOrdered)));
        let bytes = match w {
            Ok(b) => b,
            Err(p) => fail!(
                sig("binary-writer-refuses"),
                "the binary writer panicked on the renumbered AIG: {} ({cfg_name})",
                panic_message(&p)
            ),
        };
        let spec = Spec {
            parser: ParserId::AigParse,
            lit: lit_idx,
            flag: false,
        };
        let (t, _) = drivers::run(&spec, Rc::new(bytes), &Feed::one_shot(), None, true);
        let same = matches!((&t.fin, t.items.as_slice()), (Final::End, [Item::Aig(b)]) if **b == ordered);
        ensure!(
            same,
            sig("binary-roundtrip"),
            "the renumbered AIG does not survive binary write + parse: {} ({cfg_name})",
            t.fin.short()
        );
    }
    Ok(())
}

/// Largest variable index of the literal type selected by `lit` (u16, u32, usize, u8, u64).
fn max_var_of(lit: u8) -> u64 {
    match lit % 5 {
        0 => (u16::MAX >> 1) as u64,
        1 => (u32::MAX >> 1) as u64,
        3 => (u8::MAX >> 1) as u64,
        _ => u64::MAX >> 1,
    }
}

fn roots_and_defs_max_var(a: &AigOwned) -> u64 {
    let defs = a
        .inputs
        .iter()
        .copied()
        .chain(a.latches.iter().filter_map(|l| l.0))
        .chain(a.ands.iter().filter_map(|g| g.0));
    defs.chain(roots(a)).map(|l| l >> 1).max().unwrap_or(0)
}

/// Renames the variables of a graph (a bijection, so well-formedness, defects and functions are
/// unaffected). 1: the numbering is mirrored to the top of the literal type (variable 1 becomes
/// the last variable the type can express). 2: sparse numbering in which groups of variables
/// agree modulo 2^32 (64-bit types; identity otherwise). 3: spread by a large odd stride.
fn relabel(mut a: AigOwned, mode: u8, lit: u8) -> AigOwned {
    let top = max_var_of(lit);
    let f = |v: u64| -> u64 {
        if v == 0 {
            return 0;
        }
        match mode {
            1 => top - (v - 1),
            2 if top > u32::MAX as u64 => (v - 1) / 3 + 1 + (((v - 1) % 3) << 32),
            3 if top > u32::MAX as u64 => 1 + ((v - 1).wrapping_mul(0x0000_0100_0000_0001) & (top >> 1)),
            _ => v,
        }
    };
    if mode == 3 && top > u32::MAX as u64 {
        // the stride map must stay injective on the variables in use
        let mut seen = std::collections::HashSet::new();
        let all = a
            .inputs
            .iter()
            .copied()
            .chain(a.latches.iter().flat_map(|l| [l.0.unwrap_or(0), l.1]))
            .chain(a.ands.iter().flat_map(|g| [g.0.unwrap_or(0), g.1, g.2]))
            .chain(roots(&a));
        let mut vars = std::collections::HashSet::new();
        for l in all {
            vars.insert(l >> 1);
        }
        for v in vars {
            if !seen.insert(f(v)) {
                return a;
            }
        }
    }
    let g = |l: u64| -> u64 { (f(l >> 1) << 1) | (l & 1) };
    for l in &mut a.inputs {
        *l = g(*l);
    }
    for l in &mut a.latches {
        l.0 = l.0.map(g);
        l.1 = g(l.1);
    }
    for v in [&mut a.outputs, &mut a.bad, &mut a.constraints, &mut a.fairness] {
        for l in v.iter_mut() {
            *l = g(*l);
        }
    }
    for j in &mut a.justice {
        for l in j.iter_mut() {
            *l = g(*l);
        }
    }
    for gate in &mut a.ands {
        gate.0 = gate.0.map(g);
        gate.1 = g(gate.1);
        gate.2 = g(gate.2);
    }
    a.max_var_index = roots_and_defs_max_var(&a).max(if mode == 0 { a.max_var_index } else { 0 });
    a
}

// ---------------------------------------------------------------------------------------------
// Generators

fn base_strategy() -> impl Strategy<Value = (AigOwned, Vec<u32>)> {
    (
        0usize..=4,
        0usize..=3,
        0usize..=10,
        proptest::collection::vec(any::<u32>(), 120),
        (0usize..=3, 0usize..=2, 0usize..=2, prop_oneof![3 => 0usize..=2, 1 => 3usize..=4], 0usize..=2),
        0u64..6,
    )
        .prop_map(|(ni, nl, ng, picks, (no, nb, nc, nj, nf), gap)| {
            let mut p = picks.iter().cycle();
            let mut pick = |n: u64| -> u64 { ((*p.next().unwrap() as u64) * n.max(1)) >> 32 };
            let total = ni + nl + ng;
            // distinct variables from 1..=total+gap, in random order
            let mut pool: Vec<u64> = (1..=(total as u64 + gap)).collect();
            for k in (1..pool.len()).rev() {
                let j = pick(k as u64 + 1) as usize;
                pool.swap(k, j);
            }
            let vars: Vec<u64> = pool.into_iter().take(total).collect();
            let inputs: Vec<u64> = vars[..ni].iter().map(|v| 2 * v).collect();
            let latch_vars: Vec<u64> = vars[ni..ni + nl].to_vec();
            let gate_vars: Vec<u64> = vars[ni + nl..].to_vec();
            // gates in topological order (gate k may use gates < k), emitted shuffled
            let mut ands: Vec<(Option<u64>, u64, u64)> = vec![];
            for (k, v) in gate_vars.iter().enumerate() {
                let operand = |pick: &mut dyn FnMut(u64) -> u64| -> u64 {
                    let n_leaf = ni + nl;
                    let choice = pick(10);
                    let base = if choice == 0 {
                        0
                    } else if k > 0 && choice >= 5 {
                        2 * gate_vars[pick(k as u64) as usize]
                    } else if n_leaf > 0 {
                        2 * vars[pick(n_leaf as u64) as usize]
                    } else {
                        0
                    };
                    base ^ pick(2)
                };
                let x = operand(&mut pick);
                let y = match pick(8) {
                    0 => x,
                    1 => x ^ 1,
                    _ => operand(&mut pick),
                };
                ands.push((Some(2 * v), x, y));
                // occasionally duplicate the previous gate's operands (structural hashing fodder)
                if k > 0 && pick(6) == 0 {
                    let prev = ands[k - 1];
                    ands[k].1 = if pick(2) == 0 { prev.1 } else { prev.2 };
                    ands[k].2 = if ands[k].1 == prev.1 { prev.2 } else { prev.1 };
                }
            }
            let n_defined = total;
            let any_lit = |pick: &mut dyn FnMut(u64) -> u64| -> u64 {
                if n_defined == 0 || pick(8) == 0 {
                    pick(2)
                } else {
                    (2 * vars[pick(n_defined as u64) as usize]) ^ pick(2)
                }
            };
            let latches: Vec<(Option<u64>, u64, Option<bool>)> = latch_vars
                .iter()
                .map(|v| {
                    let next = any_lit(&mut pick);
                    let init = match pick(3) {
                        0 => Some(false),
                        1 => Some(true),
                        _ => None,
                    };
                    (Some(2 * v), next, init)
                })
                .collect();
            let lits = |n: usize, pick: &mut dyn FnMut(u64) -> u64| -> Vec<u64> { (0..n).map(|_| any_lit(pick)).collect() };
            let outputs = lits(no, &mut pick);
            let bad = lits(nb, &mut pick);
            let constraints = lits(nc, &mut pick);
            let justice: Vec<Vec<u64>> = (0..nj)
                .map(|_| {
                    let n = pick(3) as usize;
                    lits(n, &mut pick)
                })
                .collect();
            let fairness = lits(nf, &mut pick);
            // shuffle the gate list
            for k in (1..ands.len()).rev() {
                let j = pick(k as u64 + 1) as usize;
                ands.swap(k, j);
            }
            // usually the largest variable (plus slack); sometimes understated - the field is public,
            // a graph assembled by hand may leave it at 0 - renumbering does not depend on it
            let largest = vars.iter().copied().max().unwrap_or(0);
            let max_var = if pick(8) == 0 { pick(largest + 1) } else { largest + pick(3) };
            let aig = AigOwned {
                max_var_index: max_var,
                inputs,
                input_count: ni as u64,
                latches,
                outputs,
                bad,
                constraints,
                justice,
                fairness,
                ands,
                symbols: vec![('o', 0, "kept".into())].into_iter().filter(|_| no > 0).collect(),
                comment: Some("kept".into()),
            };
            (aig, picks)
        })
}

fn inject(mut a: AigOwned, defect: u8, picks: &[u32]) -> (AigOwned, String) {
    let mut p = picks.iter().rev().cycle();
    let mut pick = |n: u64| -> u64 { ((*p.next().unwrap() as u64) * n.max(1)) >> 32 };
    let used: std::collections::HashSet<u64> = a
        .inputs
        .iter()
        .map(|l| l >> 1)
        .chain(a.latches.iter().map(|l| l.0.unwrap() >> 1))
        .chain(a.ands.iter().map(|g| g.0.unwrap() >> 1))
        .collect();
    let mut fresh = used.iter().copied().max().unwrap_or(0) + 1;
    let mut new_var = || {
        fresh += 1;
        fresh
    };
    match defect % 3 {
        0 => {
            // combinational cycle of length 1..=8, optionally behind a prefix of fresh gates
            let len = 1 + pick(8) as usize;
            let cyc: Vec<u64> = (0..len).map(|_| new_var()).collect();
            for k in 0..len {
                let next = cyc[(k + 1) % len];
                // the cycle edge's sibling: constant true, an input, or constant false (a gate that
                // folds to false without its other input being needed)
                let other = match pick(4) {
                    0 => 0,
                    1 => 1,
                    _ if a.inputs.is_empty() => 1,
                    _ => a.inputs[pick(a.inputs.len() as u64) as usize] ^ pick(2),
                };
                let edge = 2 * next ^ pick(2);
                let (x, y) = if pick(2) == 0 { (edge, other) } else { (other, edge) };
                a.ands.push((Some(2 * cyc[k]), x, y));
            }
            let mut entry = 2 * cyc[0] ^ pick(2);
            for _ in 0..pick(7) {
                let v = new_var();
                a.ands.push((Some(2 * v), entry, 1));
                entry = 2 * v ^ pick(2);
            }
            // reachable from a root, or left dangling
            match pick(4) {
                0 => {}
                1 => a.outputs.push(entry),
                2 if !a.latches.is_empty() => a.latches[0].1 = entry,
                _ => a.bad.push(entry),
            }
            a.max_var_index = fresh;
            (a, "cycle".into())
        }
        1 => {
            let v = new_var() + pick(3);
            // keep later fresh variables distinct from the undefined one
            for _ in 0..4 {
                new_var();
            }
            let lit = 2 * v ^ pick(2);
            match pick(4) {
                0 => a.outputs.push(lit),
                1 if !a.ands.is_empty() => {
                    // as first or as second input of an existing gate; the sibling sometimes becomes
                    // constant false
                    let k = pick(a.ands.len() as u64) as usize;
                    let first = pick(2) == 0;
                    if first {
                        a.ands[k].1 = lit;
                    } else {
                        a.ands[k].2 = lit;
                    }
                    if pick(3) == 0 {
                        if first {
                            a.ands[k].2 = 0;
                        } else {
                            a.ands[k].1 = 0;
                        }
                    }
                }
                2 if !a.latches.is_empty() => a.latches[0].1 = lit,
                _ => {
                    // undefined literal inside a dangling gate (either input, sibling true or false)
                    let g = new_var();
                    let sib = pick(2);
                    a.ands.push(if pick(2) == 0 { (Some(2 * g), lit, sib) } else { (Some(2 * g), sib, lit) });
                }
            }
            a.max_var_index = v.max(fresh) + 1;
            (a, "undefined".into())
        }
        _ => {
            // double definition
            let kind = pick(10);
            let some_input = a.inputs.first().copied();
            let some_gate = a.ands.first().map(|g| g.0.unwrap());
            let some_latch = a.latches.first().map(|l| l.0.unwrap());
            let fresh_gate = |a: &mut AigOwned, out: u64| a.ands.push((Some(out), 1, 1));
            // the second definition uses the same or the complemented literal
            let c = pick(2);
            match kind {
                0 if some_input.is_some() => a.inputs.push(some_input.unwrap() ^ c),
                1 if some_input.is_some() => fresh_gate(&mut a, some_input.unwrap() ^ c),
                2 if some_gate.is_some() => fresh_gate(&mut a, some_gate.unwrap() ^ c),
                3 if some_latch.is_some() => a.inputs.push(some_latch.unwrap() ^ c),
                4 if some_latch.is_some() => fresh_gate(&mut a, some_latch.unwrap() ^ c),
                5 if some_latch.is_some() => a.latches.push((some_latch.map(|l| l ^ c), 0, Some(false))),
                6 => a.inputs.push(pick(2)),
                7 if some_gate.is_some() => a.latches.push((some_gate.map(|g| g ^ c), 1, None)),
                _ => {
                    if pick(2) == 0 {
                        // a latch whose state literal is a constant
                        a.latches.push((Some(pick(2)), 0, Some(false)));
                    } else if let Some(i) = some_input {
                        a.latches.push((Some(i ^ c), 0, Some(false)));
                    } else {
                        a.inputs.push(0);
                    }
                }
            }
            // the two definitions in either order (the added one first half of the time)
            if pick(2) == 0 {
                if !a.inputs.is_empty() {
                    a.inputs.rotate_right(1);
                }
                if !a.ands.is_empty() {
                    a.ands.rotate_right(1);
                }
                if !a.latches.is_empty() {
                    a.latches.rotate_right(1);
                }
            }
            a.input_count = a.inputs.len() as u64;
            (a, "double".into())
        }
    }
}

fn case_strategy() -> impl Strategy<Value = Case> {
    (
        base_strategy(),
        any::<[bool; 3]>(),
        0u8..5,
        prop_oneof![5 => Just(None), 3 => (0u8..3).prop_map(Some)],
        any::<u64>(),
        prop_oneof![6 => Just(0u8), 1 => Just(1u8), 1 => Just(2u8), 1 => Just(3u8)],
    )
        .prop_map(|((aig, picks), [trim, strash, fold], lit, defect, patterns_seed, relabel_mode)| {
            let (aig, defect) = match defect {
                None => (aig, String::new()),
                Some(d) => inject(aig, d, &picks),
            };
            let aig = relabel(aig, relabel_mode, lit);
            Case {
                aig,
                trim,
                strash,
                fold,
                lit,
                defect,
                patterns_seed,
            }
        })
}

#[derive(Serialize, Deserialize, Clone, Debug, PartialEq, Eq, Hash)]
pub struct DeepCase {
    pub gates: usize,
    /// 0 chain, 1 tree over earlier gates, 2 chain of x&x / x&!x, 3 shift register (latches and gates)
    pub shape: u8,
    pub trim: bool,
    pub strash: bool,
    pub fold: bool,
    pub seed: u64,
    pub cyclic: bool,
    /// Literal type as in `Case::lit`; 2 (usize) when absent.
    #[serde(default = "deep_default_lit")]
    pub lit: u8,
}

fn deep_default_lit() -> u8 {
    2
}

fn build_deep(d: &DeepCase) -> Case {
    let n = d.gates.max(1);
    let ni = 3u64;
    let mut ands = Vec::with_capacity(n);
    let mut x = d.seed | 1;
    let mut rnd = |m: u64| {
        x ^= x << 13;
        x ^= x >> 7;
        x ^= x << 17;
        x % m.max(1)
    };
    if d.shape % 4 == 3 {
        // wide rather than deep: n/2 latches and n/2 gates, gate k = latch k & an input, latch k+1
        // takes gate k (two large sections at once)
        let h = (n as u64 / 2).max(1);
        let latch = |k: u64| 2 * (ni + 1 + k);
        let gate = |k: u64| 2 * (ni + 1 + h + k);
        let mut latches = Vec::with_capacity(h as usize);
        let mut gates = Vec::with_capacity(h as usize);
        for k in 0..h {
            let next = if k == 0 { 2 } else { gate(k - 1) ^ rnd(2) };
            latches.push((Some(latch(k)), next, if k % 3 == 0 { None } else { Some(k % 2 == 0) }));
            gates.push((Some(gate(k)), latch(k) ^ rnd(2), (2 * (1 + rnd(ni))) ^ rnd(2)));
        }
        let mut defect = String::new();
        if d.cyclic {
            // gate 0 depends on the last gate and the last gate (through nothing sequential) on gate 0
            let last = gates.len() - 1;
            gates[0].2 = gate(last as u64);
            gates[last].2 = gate(0);
            if last == 0 {
                gates[0].2 = gate(0) ^ 1;
            }
            defect = "cycle".into();
        }
        return Case {
            aig: AigOwned {
                max_var_index: ni + 2 * h,
                inputs: vec![2, 4, 6],
                input_count: ni,
                latches,
                outputs: vec![gate(h - 1) ^ 1],
                ands: gates,
                ..AigOwned::default()
            },
            trim: d.trim,
            strash: d.strash,
            fold: d.fold,
            lit: d.lit,
            defect,
            patterns_seed: d.seed,
        };
    }
    for k in 0..n as u64 {
        let out = 2 * (ni + 1 + k);
        let prev = if k == 0 { 2 } else { 2 * (ni + k) };
        let (a, b) = match d.shape % 3 {
            0 => (prev ^ rnd(2), (2 * (1 + rnd(ni))) ^ rnd(2)),
            1 => {
                let l = if k == 0 { 2 } else { 2 * (ni + 1 + rnd(k)) };
                (l ^ rnd(2), prev ^ rnd(2))
            }
            _ => (prev, prev ^ (rnd(2) * (rnd(50) == 0) as u64)),
        };
        ands.push((Some(out), a, b));
    }
    // emit in reverse order: the deepest gate first
    ands.reverse();
    let top = 2 * (ni + n as u64);
    let mut defect = String::new();
    if d.cyclic {
        // close a long cycle: the first gate of the chain depends on the last
        let last = ands.len() - 1;
        ands[last].1 = top;
        defect = "cycle".into();
    }
    Case {
        aig: AigOwned {
            max_var_index: ni + n as u64,
            inputs: vec![2, 4, 6],
            input_count: ni,
            outputs: vec![top ^ 1],
            ands,
            ..AigOwned::default()
        },
        trim: d.trim,
        strash: d.strash,
        fold: d.fold,
        lit: d.lit,
        defect,
        patterns_seed: d.seed,
    }
}

pub fn check_deep(d: &DeepCase, obs: &mut Obs) -> CheckResult {
    let c = build_deep(d);
    obs.class(format!("deep-shape/{}", if d.shape % 4 == 3 { 3 } else { d.shape % 3 }));
    check(&c, obs)
}

fn deep_strategy(max_gates: usize) -> impl Strategy<Value = DeepCase> {
    (
        // mostly deep graphs over usize; one in four uses every variable a narrow type has
        // (3 inputs + gates = 127 for u8, 32767 for u16)
        prop_oneof![
            6 => (1000usize..=max_gates).prop_map(|g| (g, 2u8)),
            1 => Just((124usize, 3u8)),
            1 => Just((32764usize, 0u8)),
        ],
        prop_oneof![3 => 0u8..3, 1 => Just(3u8)],
        any::<[bool; 3]>(),
        any::<u64>(),
        any::<bool>(),
    )
        .prop_map(|((gates, lit), shape, [trim, strash, fold], seed, cyclic)| DeepCase {
            gates,
            shape,
            trim,
            strash,
            fold,
            seed,
            cyclic,
            lit,
        })
}

fn run(ctx: &Ctx) {
    let n = ctx.share(ctx.tier.pick(1_600_000, 48_000_000));
    ctx.run_cases("renumber", n, case_strategy(), check);
    let n = ctx.share(ctx.tier.pick(160, 4_800));
    let max = ctx.tier.pick(600_000, 2_000_000);
    ctx.run_cases("renumber-deep", n, deep_strategy(max), check_deep);
}

fn replay(oracle: &str, v: &Value) -> Option<CheckResult> {
    match oracle {
        "renumber" => Some(match replay_from_file::<Case>(v) {
            Ok(c) => check(&c, &mut Obs::default()),
            Err(e) => Err(Failure::new("C12:decode", e)),
        }),
        "renumber-deep" => Some(match replay_from_file::<DeepCase>(v) {
            Ok(c) => check_deep(&c, &mut Obs::default()),
            Err(e) => Err(Failure::new("C12:decode", e)),
        }),
        _ => None,
    }
}

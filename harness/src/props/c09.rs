//! C09 — items are delivered without reading past the line that completes them.
use std::rc::Rc;

use proptest::prelude::*;
use serde::{Deserialize, Serialize};
use serde_json::Value;

use super::PropDef;
use crate::drivers::{self, Final, ParserId, Spec};
use crate::engine::{replay_from_file, show_bytes, CheckResult, Ctx, Failure, Obs};
use crate::fail;
use crate::gen::{choices_strategy, doc_strategy, Doc};
use crate::reader_model::{classify, history_strategy, run_history, History, Oracles};
use crate::source::{chunk_strategy, ctor_strategy, schedule_strategy, Feed};

pub fn def() -> PropDef {
    PropDef {
        id: "C09",
        level: "exploration",
        profiles: &["checked", "fast"],
        abort_is_violation: false,
        rule: "Part 1: well-formed documents for the streaming parsers (cnf, wcnf, gcnf, aag and aig section \
               readers, btor2; layout-rendered with comments, blank lines and split clauses) are delivered by a \
               line-bounded source: every read() returns a piece that lies within one line (for the binary and-gate \
               section: within one gate), under generated piece sizes, Interrupted results and chunk sizes. Oracle: \
               at the moment item i is returned, the number of bytes the source has handed over is at most the \
               offset of the end of the line that completes item i (from the renderer's token map). Part 2: reader \
               operation histories (C02 generator) with the read-accounting oracle: no source call when the \
               buffered data satisfies the request, no read issued when the request was already satisfied before \
               the last read, request_more = exactly one data/terminal read, Interrupted retried, every offered \
               slice between 1 and chunk-size bytes, no call after end of input or an error. Non-trivial: Part 1 - \
               at least 3 items and a comment/blank line or a multi-line item in between; Part 2 - the terminal \
               event happened inside the history and was followed by further requests, or >= 3 refills.",
        assumptions: &[
            "Part 1 is decided for line-bounded delivery only, which is what the property describes (terminal, pipe from a line-buffered tool)",
        ],
        exhaustive: |_| false,
        run,
        replay,
    }
}

#[derive(Serialize, Deserialize, Clone, Debug, PartialEq, Eq, Hash)]
pub struct Case {
    pub spec: Spec,
    pub doc: Doc,
    #[serde(with = "crate::engine::hexbytes")]
    pub choices: Vec<u8>,
    pub feed: Feed,
}

pub fn check_stream(c: &Case, obs: &mut Obs) -> CheckResult {
    let spec = c.spec;
    let r = c.doc.render(&c.choices, true, false);
    let data = Rc::new(r.bytes.clone());
    let cuts = Rc::new(r.cuts.clone());
    let mut feed = c.feed.clone();
    feed.sched.line_bounded = true;
    let (t, log) = drivers::run(&spec, data.clone(), &feed, Some(cuts), true);
    obs.class(format!("parser/{}", spec.parser.name()));
    obs.class(format!("chunk/{}", feed.chunk_class()));
    let p = spec.parser.name();
    if t.fin != Final::End {
        // C07/C03 decide whether that is right; here it only means there is nothing to time
        obs.class("not-accepted");
        return Ok(());
    }
    let n = t.items.len().min(r.item_end.len());
    let multi = r.features.iter().any(|f| {
        matches!(*f, "split-clause" | "comment-inside-clause" | "blank-inside-clause" | "comment-line" | "blank-line" | "break-after-weight")
    }) || spec.parser.is_aiger();
    if t.items.len() >= 3 && multi {
        obs.nontrivial();
    }
    obs.class_if(log.interrupts > 0, "interrupted-reads");
    obs.class_if(log.prefilled > 0, "prefilled-bufreader");
    for i in 0..n {
        // a pre-filled BufReader pulled (at most one line of) bytes before parsing started
        let allowed = r.item_end[i].max(log.prefilled);
        let got = t.marks[i].delivered;
        if got > allowed {
            fail!(
                format!("C09:{p}:read-ahead"),
                "{}: item {} ({:?}) was handed out only after {} bytes had been pulled from the source, but the line completing it ends at byte {} (a line-bounded source, chunk {:?}); text {:?}",
                spec.describe(),
                i,
                t.items[i],
                got,
                allowed,
                feed.chunk,
                show_bytes(&data)
            );
        }
    }
    Ok(())
}

const WHICH: Oracles = Oracles {
    window: false,
    reads: true,
    safety: false,
};

pub fn check_reads(h: &History, obs: &mut Obs) -> CheckResult {
    let st = run_history(h, WHICH, "C09")?;
    classify(h, &st, obs);
    if (st.terminal_seen && st.ops_after_terminal > 0) || st.realigns >= 1 {
        obs.nontrivial();
    }
    Ok(())
}

fn run(ctx: &Ctx) {
    let n = ctx.share(ctx.tier.pick(500_000, 12_000_000));
    let parsers = vec![
        ParserId::Cnf,
        ParserId::Wcnf,
        ParserId::Gcnf,
        ParserId::Aag,
        ParserId::Aig,
        ParserId::Btor2,
    ];
    let strat = (proptest::sample::select(parsers), 0u8..5)
        .prop_flat_map(|(parser, lit)| {
            let spec = Spec {
                parser,
                lit,
                flag: false,
            };
            (
                Just(spec),
                doc_strategy(spec, 8),
                choices_strategy(),
                schedule_strategy(),
                chunk_strategy(),
                ctor_strategy(),
            )
        })
        .prop_map(|(spec, doc, choices, sched, chunk, ctor)| {
            Case {
                spec,
                doc,
                choices,
                feed: Feed { sched, chunk, ctor, late_chunk: false },
            }
        });
    ctx.run_cases("line-bounded", n, strat, check_stream);
    let n = ctx.share(ctx.tier.pick(300_000, 8_000_000));
    ctx.run_cases("read-accounting", n, history_strategy(600, 60, false), check_reads);
}

fn replay(oracle: &str, v: &Value) -> Option<CheckResult> {
    match oracle {
        "line-bounded" => Some(match replay_from_file::<Case>(v) {
            Ok(c) => check_stream(&c, &mut Obs::default()),
            Err(e) => Err(Failure::new("C09:decode", e)),
        }),
        "read-accounting" => Some(match replay_from_file::<History>(v) {
            Ok(h) => check_reads(&h, &mut Obs::default()),
            Err(e) => Err(Failure::new("C09:decode", e)),
        }),
        _ => None,
    }
}

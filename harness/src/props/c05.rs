//! C05 — every input terminates with Ok or Err and bounded resources.
use std::rc::Rc;

use proptest::prelude::*;
use serde::{Deserialize, Serialize};
use serde_json::Value;

use super::PropDef;
use crate::alloc;
use crate::drivers::{self, Final};
use crate::engine::{replay_from_file, show_bytes, CheckResult, Ctx, Failure, Obs};
use crate::fail;
use crate::inputs::{input_strategy, Input};
use crate::source::Feed;

pub fn def() -> PropDef {
    PropDef {
        id: "C05",
        level: "exploration",
        profiles: &["checked", "fast"],
        abort_is_violation: true,
        rule: "all input classes of C01 plus a hostile class (huge declared counts in every header field, 20-40 \
               digit numbers, over-long binary varints, arbitrary tails), documents behind a byte order mark or \
               stray line end, and one short token repeated 10^3..10^6 times inside a valid document, for every parser (streaming and \
               collecting parse()), literal type and config, delivered one-shot or through a generated feed (read sizes, interruptions, chunk size, constructor; one in ten ends in an injected I/O error), in \
               a build with overflow checks + debug assertions and in a plain release build; the repeated-token \
               class additionally on a thread with a 2 MiB stack, also in a build without optimisation (one extra shard). Each case runs in an \
               isolated worker process with a counting allocator and a CPU watchdog. Oracle: the outcome is a \
               value (clean end, syntax error, I/O error) - not a panic, not a signal/abort (worker death is \
               attributed to the running case), not a CPU-limit hit - and the peak heap attributable to the parse \
               is <= 128 x bytes delivered + 256 KiB. Non-trivial: the parse got past the first line (>= 1 item, \
               or an error located after line 1) or the input is from the hostile class; distinct by hash.",
        assumptions: &[
            "the heap bound's factor 128 covers the legitimate worst case of the collecting parse() functions (2-byte line -> 24-byte Vec header, doubling, old+new during realloc); the constant covers one default chunk buffer",
            "a case is declared hanging only after 60 CPU-seconds (>= 10^4 x the slowest normal case), twice",
        ],
        exhaustive: |_| false,
        run,
        replay,
    }
}

#[derive(Serialize, Deserialize, Clone, Debug, PartialEq, Eq, Hash)]
pub struct Case {
    pub input: Input,
    /// None: everything in one read (what the tests do).
    pub feed: Option<Feed>,
}

pub fn check(c: &Case, obs: &mut Obs) -> CheckResult {
    let data = Rc::new(c.input.bytes.clone());
    let spec = c.input.spec;
    let feed = c.feed.clone().unwrap_or_else(Feed::one_shot);
    let measured = alloc::installed();
    let w = alloc::window();
    let (t, log) = drivers::run(&spec, data.clone(), &feed, None, false);
    let peak = w.peak();
    let largest = w.largest();
    obs.class(format!("parser/{}", spec.parser.name()));
    obs.class(format!("lit/{}", spec.lit_name()));
    obs.class(format!("input/{}", c.input.class));
    obs.class_if(feed.sched.fail_at.is_some(), "failing-source");
    obs.class(match &t.fin {
        Final::End => "outcome/clean-end",
        Final::Syntax { .. } => "outcome/syntax-error",
        Final::Io { .. } => "outcome/io-error",
        Final::Panic { .. } => "outcome/panic",
    });
    let past_header = t.item_count >= 1 || matches!(&t.fin, Final::Syntax { line, .. } if *line > 1);
    if past_header || c.input.class == "hostile" || c.input.class == "repeated-token" {
        obs.nontrivial();
    }
    if let Final::Panic { msg, loc } = &t.fin {
        let loc_short = loc.rsplit("/repo/").next().unwrap_or(loc);
        fail!(
            format!("C05:{}:panic:{}", spec.parser.name(), loc_short),
            "{} panicked at {}: {}; input {:?} ({})",
            spec.describe(),
            loc,
            msg,
            show_bytes(&data),
            c.input.class
        );
    }
    if measured {
        let bound = 128 * log.delivered.max(1) + (256 << 10);
        if peak > bound || largest > bound {
            fail!(
                format!("C05:{}:memory", spec.parser.name()),
                "{}: peak heap {} bytes (largest single request {}) for {} delivered input bytes exceeds the bound {}; input {:?}",
                spec.describe(),
                peak,
                largest,
                log.delivered,
                bound,
                show_bytes(&data)
            );
        }
    }
    Ok(())
}

pub fn check_scale(c: &Case, obs: &mut Obs) -> CheckResult {
    crate::engine::on_small_stack(|| check(c, obs))
}

fn scale_strategy() -> impl Strategy<Value = Case> {
    crate::gen::spec_strategy()
        .prop_flat_map(|spec| crate::inputs::repetition_strategy(spec, 6))
        .prop_map(|input| Case { input, feed: None })
}

fn run(ctx: &Ctx) {
    if !alloc::installed() {
        ctx.note("counting allocator not installed: heap bound not checked");
    }
    // Scale: one token repeated up to 10^6 times, parsed on a thread with a 2 MiB stack. This is
    // all the extra shard built without optimisation runs (recursion stays recursion there).
    if ctx.profile == "unopt" {
        ctx.run_cases("robustness-scale", ctx.tier.pick(320, 1_600), scale_strategy(), check_scale);
        return;
    }
    ctx.run_cases("robustness-scale", ctx.share(ctx.tier.pick(1_600, 16_000)), scale_strategy(), check_scale);
    let n = ctx.share(ctx.tier.pick(1_600_000, 80_000_000));
    // two feeds in five are generated; a quarter of those fail after a generated number of bytes
    let strat = (
        input_strategy(12, true),
        proptest::option::weighted(0.4, crate::source::parser_feed_strategy()),
        proptest::option::weighted(0.25, (any::<u16>(), crate::source::errkind_strategy())),
    )
        .prop_map(|(input, mut feed, fail)| {
            if let (Some(f), Some((frac, kind))) = (feed.as_mut(), fail) {
                f.sched.fail_at = Some(((frac as usize * (input.bytes.len() + 1)) >> 16, kind));
                f.sched.sticky = frac & 1 == 1;
                f.sched.wrapped = frac & 6 == 6;
            }
            Case { input, feed }
        });
    ctx.run_cases("robustness", n, strat, check);
    // long documents (several 16 KiB chunks, so that the buffer is realigned with the default
    // configuration and with sources that fill whatever slice they are offered)
    let n = ctx.share(ctx.tier.pick(800, 8_000));
    let strat = crate::props::c01::large_case_strategy().prop_map(|c| Case {
        input: c.input,
        feed: Some(c.feed),
    });
    ctx.run_cases("robustness-large", n, strat, check);
}

fn replay(oracle: &str, v: &Value) -> Option<CheckResult> {
    match oracle {
        "robustness-scale" => Some(match replay_from_file::<Case>(v) {
            Ok(c) => check_scale(&c, &mut Obs::default()),
            Err(e) => Err(Failure::new("C05:decode", e)),
        }),
        "robustness" | "robustness-large" => Some(match replay_from_file::<Case>(v) {
            Ok(c) => check(&c, &mut Obs::default()),
            Err(e) => Err(Failure::new("C05:decode", e)),
        }),
        _ => None,
    }
}

//! C02 — the buffered reader is a loss-free, in-order window onto its source.
use proptest::prelude::*;
use serde_json::Value;

use super::PropDef;
use crate::engine::{replay_from_file, CheckResult, Ctx, Failure, Obs};
use crate::reader_model::{classify, history_strategy, run_history, History, Oracles};

pub fn def() -> PropDef {
    PropDef {
        id: "C02",
        level: "exploration",
        profiles: &["checked", "fast"],
        abort_is_violation: false,
        rule: "proptest-generated operation histories (request, request_byte(_at_offset), request_more, \
               advance, advance_with_buf, advance_unchecked, set_mark, set_mark_to_position, set_chunk_size, \
               check_io_error, scan helpers) over generated source bytes, read schedules (short reads, \
               Interrupted, terminal EOF or error at any offset), chunk sizes and the three constructors \
               (from_buf_reader with a pre-filled BufReader); after every step all observers are compared \
               with a Vec+cursor model. Also: interruption storms of up to 5000 consecutive Interrupted results, \
               look-ahead offsets/lengths next to usize::MAX, BufReaders of 8..64 KiB capacity, one history in six \
               with calls documented to panic (caught; the state must be unchanged), and histories over 0.3..1 MB \
               of data with look-ahead of up to 700 KB followed by advancing over most of the window. Non-trivial: the documented realign policy forced at least one \
               realign during the history, or the terminal event happened inside the history with further \
               operations after it. Distinct by hash of the serialised history.",
        assumptions: &[
            "the scheduled source and its delivered-byte log in harness/src/source.rs are correct",
            "position wrap-around at usize::MAX and chunk sizes near usize::MAX are out of reach",
        ],
        exhaustive: |_| false,
        run,
        replay,
    }
}

const WHICH: Oracles = Oracles {
    window: true,
    reads: false,
    safety: false,
};

pub fn check(h: &History, obs: &mut Obs) -> CheckResult {
    let st = run_history(h, WHICH, "C02")?;
    classify(h, &st, obs);
    if st.realigns > 0 || (st.terminal_seen && st.ops_after_terminal > 0) {
        obs.nontrivial();
    }
    Ok(())
}

fn run(ctx: &Ctx) {
    // Small buffers with many operations: realigns are frequent because chunk sizes are small.
    let n = ctx.share(ctx.tier.pick(400_000, 6_000_000));
    // one history in six also contains calls that are documented to panic (advancing past the
    // buffered data); the panic is caught and the reader keeps being used: its state must be
    // what it was before the rejected call
    let strat = (
        prop_oneof![5 => history_strategy(600, 60, false).boxed(), 1 => history_strategy(600, 60, true).boxed()],
        prop_oneof![3 => Just(0usize), 2 => 1usize..=64],
    )
        .prop_map(|(mut h, consumed)| {
            h.consumed_before = consumed;
            h
        });
    ctx.run_cases("history", n, strat, check);
    // Long inputs with the default/4096 chunk: realign needs > 2 chunks advanced.
    let big = (
        history_strategy(40_000, 40, false),
        prop_oneof![Just(Some(4096usize)), Just(Some(1000usize)), Just(None)],
    )
        .prop_map(|(mut h, chunk)| {
            h.feed.chunk = chunk;
            // stretch the data so that several chunks exist
            let base = h.data.clone();
            if !base.is_empty() {
                while h.data.len() < 60_000 {
                    h.data.extend_from_slice(&base);
                }
            }
            h
        });
    let n = ctx.share(ctx.tier.pick(6_000, 90_000));
    ctx.run_cases("history-large", n, big, check);
    // Look-ahead of hundreds of kilobytes over 0.3..1 MB of data.
    let n = ctx.share(ctx.tier.pick(1_600, 32_000));
    ctx.run_cases("history-huge", n, crate::reader_model::huge_history_strategy(), check);
}

fn replay(oracle: &str, v: &Value) -> Option<CheckResult> {
    match oracle {
        "history" | "history-large" | "history-huge" => Some(match replay_from_file::<History>(v) {
            Ok(h) => check(&h, &mut Obs::default()),
            Err(e) => Err(Failure::new("C02:decode", e)),
        }),
        _ => None,
    }
}

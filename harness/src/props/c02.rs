//! C02 — the buffered reader is a loss-free, in-order window onto its source.
use proptest::prelude::*;
use serde_json::Value;

use super::PropDef;
use crate::engine::{replay_from_file, CheckResult, Ctx, Failure, Obs};
use crate::reader_model::{classify, history_strategy, run_history, History, Oracles};

pub fn def() -> PropDef {
    PropDef {
        id: "C02",
        level: "exploration",
        profiles: &["checked", "fast"],
        abort_is_violation: false,
        rule: "proptest-generated operation histories (request, request_byte(_at_offset), request_more, \
               advance, advance_with_buf, advance_unchecked, set_mark, set_mark_to_position, set_chunk_size, \
               check_io_error, scan helpers) over generated source bytes, read schedules (short reads, \
               Interrupted, terminal EOF or error at any offset), chunk sizes and the three constructors \
               (from_buf_reader with a pre-filled BufReader); after every step all observers are compared \
               with a Vec+cursor model. Also: interruption storms of up to 5000 consecutive Interrupted results, \
               look-ahead offsets/lengths next to usize::MAX, BufReaders of 8..64 KiB capacity, one history in six \
               with calls documented to panic (caught; the state must be unchanged), and histories over 0.3..1 MB \
               of data with look-ahead of up to 700 KB followed by advancing over most of the window, and a handful of \
               histories with 33..71 MiB of contiguous look-ahead. Non-trivial: the documented realign policy forced at least one \
               realign during the history, or the terminal event happened inside the history with further \
               operations after it. Distinct by hash of the serialised history.",
        assumptions: &[
            "the scheduled source and its delivered-byte log in harness/src/source.rs are correct",
            "position wrap-around at usize::MAX and chunk sizes near usize::MAX are out of reach",
        ],
        exhaustive: |_| false,
        run,
        replay,
    }
}

const WHICH: Oracles = Oracles {
    window: true,
    reads: false,
    safety: false,
};

pub fn check(h: &History, obs: &mut Obs) -> CheckResult {
    let st = run_history(h, WHICH, "C02")?;
    classify(h, &st, obs);
    if st.realigns > 0 || (st.terminal_seen && st.ops_after_terminal > 0) {
        obs.nontrivial();
    }
    Ok(())
}

/// Tens of megabytes of contiguous look-ahead (beyond any "reasonable" internal cap); the data
/// is a function of `seed`, so the case stays small.
#[derive(serde::Serialize, serde::Deserialize, Clone, Debug, PartialEq, Eq, Hash)]
pub struct Giant {
    pub len: usize,
    pub seed: u8,
    pub chunk: Option<usize>,
    pub ops: Vec<crate::reader_model::Op>,
}

pub fn check_giant(g: &Giant, obs: &mut Obs) -> CheckResult {
    let mut data = Vec::with_capacity(g.len);
    let mut x = g.seed as u32 | 1;
    while data.len() < g.len {
        // xorshift bytes: position-dependent, cheap
        x ^= x << 13;
        x ^= x >> 17;
        x ^= x << 5;
        data.extend_from_slice(&x.to_le_bytes());
    }
    data.truncate(g.len);
    let h = History {
        data,
        feed: crate::source::Feed {
            chunk: g.chunk,
            ..crate::source::Feed::one_shot()
        },
        ops: g.ops.clone(),
        consumed_before: 0,
    };
    obs.class("look-ahead>32MiB");
    check(&h, obs)
}

fn giant_strategy() -> impl Strategy<Value = Giant> {
    use crate::reader_model::Op;
    let op = prop_oneof![
        4 => prop_oneof![(33u32 << 20)..(36 << 20), (64u32 << 20)..(71 << 20), (1u32 << 20)..(71 << 20)].prop_map(Op::RequestAbs),
        2 => any::<u16>().prop_map(Op::Advance),
        1 => Just(Op::RequestMore),
        1 => Just(Op::RequestByte),
        1 => (0u64..(71 << 20)).prop_map(Op::RequestByteAt),
    ];
    (
        (68usize << 20)..(73 << 20),
        any::<u8>(),
        prop_oneof![Just(None), Just(Some(1usize << 20)), Just(Some(40usize << 20))],
        proptest::collection::vec(op, 2..7),
    )
        .prop_map(|(len, seed, chunk, ops)| Giant { len, seed, chunk, ops })
}

fn run(ctx: &Ctx) {
    // Small buffers with many operations: realigns are frequent because chunk sizes are small.
    let n = ctx.share(ctx.tier.pick(400_000, 6_000_000));
    // one history in six also contains calls that are documented to panic (advancing past the
    // buffered data); the panic is caught and the reader keeps being used: its state must be
    // what it was before the rejected call
    let strat = (
        prop_oneof![5 => history_strategy(600, 60, false).boxed(), 1 => history_strategy(600, 60, true).boxed()],
        prop_oneof![3 => Just(0usize), 2 => 1usize..=64],
    )
        .prop_map(|(mut h, consumed)| {
            h.consumed_before = consumed;
            h
        });
    ctx.run_cases("history", n, strat, check);
    // Long inputs with the default/4096 chunk: realign needs > 2 chunks advanced.
    let big = (
        history_strategy(40_000, 40, false),
        prop_oneof![Just(Some(4096usize)), Just(Some(1000usize)), Just(None)],
    )
        .prop_map(|(mut h, chunk)| {
            h.feed.chunk = chunk;
            // stretch the data so that several chunks exist
            let base = h.data.clone();
            if !base.is_empty() {
                while h.data.len() < 60_000 {
                    h.data.extend_from_slice(&base);
                }
            }
            h
        });
    let n = ctx.share(ctx.tier.pick(6_000, 90_000));
    ctx.run_cases("history-large", n, big, check);
    // Look-ahead of hundreds of kilobytes over 0.3..1 MB of data.
    let n = ctx.share(ctx.tier.pick(1_600, 32_000));
    ctx.run_cases("history-huge", n, crate::reader_model::huge_history_strategy(), check);
    // Look-ahead of 33..71 MiB in one piece over ~70 MiB of data (a handful of cases).
    let n = ctx.share(ctx.tier.pick(16, 160));
    ctx.run_cases("history-giant", n.min(ctx.tier.pick(1, 10)), giant_strategy(), check_giant);
}

fn replay(oracle: &str, v: &Value) -> Option<CheckResult> {
    match oracle {
        "history-giant" => Some(match replay_from_file::<Giant>(v) {
            Ok(g) => check_giant(&g, &mut Obs::default()),
            Err(e) => Err(Failure::new("C02:decode", e)),
        }),
        "history" | "history-large" | "history-huge" => Some(match replay_from_file::<History>(v) {
            Ok(h) => check(&h, &mut Obs::default()),
            Err(e) => Err(Failure::new("C02:decode", e)),
        }),
        _ => None,
    }
}

//! C16 — text scanning helpers pass over exactly what they document, and no further.
use std::rc::Rc;

use proptest::prelude::*;
use serde::{Deserialize, Serialize};
use serde_json::{json, Value};

use super::PropDef;
use crate::engine::{replay_from_file, show_bytes, CheckResult, Ctx, Failure, Obs};
use crate::source::{build_reader, feed_strategy, Ctor, Feed, Schedule};
use crate::{ensure, fail};

pub fn def() -> PropDef {
    PropDef {
        id: "C16",
        level: "exploration",
        profiles: &["checked", "fast"],
        abort_is_violation: false,
        rule: "complete enumeration of all strings over {SP,TAB,CR,LF,'x'} of length 0..6 x every start \
               offset 0..=len+1 x {fully buffered, 1 byte per read with chunk size 1, 3-byte chunks} x \
               {tabs_or_spaces, newline, next_newline, fixed with every prefix of the remaining input, prefix + \
               wrong byte, longer than input, empty}; plus proptest-sampled strings up to 300 bytes over all \
               byte values with generated feeds, pre-buffered amounts and cursor positions, and strings of up to 200 KB made of \
               runs (blanks, letters, digits, line ends) of up to 40 KB each. Oracle: reference \
               scanner on the full string, unchanged position/window, delivered-byte bound. Non-trivial: the \
               scanner passed over at least one byte, or deciding needed a byte that was not yet buffered.",
        assumptions: &[
            "the delivered-byte bound is 'bytes needed to decide + chunk size - 1' because one read may return up to a chunk",
        ],
        exhaustive: |_| false,
        run,
        replay,
    }
}

#[derive(Serialize, Deserialize, Clone, Copy, Debug, PartialEq, Eq, Hash)]
pub enum Func {
    TabsOrSpaces,
    Newline,
    NextNewline,
    Fixed,
}

#[derive(Serialize, Deserialize, Clone, Debug, PartialEq, Eq, Hash)]
pub struct Case {
    #[serde(with = "crate::engine::hexbytes")]
    pub data: Vec<u8>,
    pub feed: Feed,
    /// Bytes requested (buffered) before the call.
    pub pre: usize,
    /// Bytes advanced over before the call.
    pub adv: usize,
    pub off: usize,
    pub func: Func,
    #[serde(with = "crate::engine::hexbytes")]
    pub pat: Vec<u8>,
}

/// Reference: (returned offset, number of bytes from the cursor that must be inspected to decide;
/// `usize::MAX` when the end of input has to be seen).
fn reference(s: &[u8], off: usize, func: Func, pat: &[u8]) -> (usize, usize) {
    const ALL: usize = usize::MAX;
    match func {
        Func::TabsOrSpaces => {
            let mut r = off;
            while matches!(s.get(r), Some(b' ') | Some(b'\t')) {
                r += 1;
            }
            (r, if r < s.len() { r + 1 } else { ALL })
        }
        Func::Newline => match s.get(off) {
            Some(b'\n') => (off + 1, off + 1),
            Some(b'\r') => {
                if s.get(off + 1) == Some(&b'\n') {
                    (off + 2, off + 2)
                } else {
                    (off, if off + 1 < s.len() { off + 2 } else { ALL })
                }
            }
            Some(_) => (off, off + 1),
            None => (off, ALL),
        },
        Func::NextNewline => {
            if off >= s.len() {
                return (off, ALL);
            }
            match s[off..].iter().position(|&b| b == b'\n') {
                Some(i) => (off + i + 1, off + i + 1),
                None => (s.len(), ALL),
            }
        }
        Func::Fixed => {
            for (i, &b) in pat.iter().enumerate() {
                match s.get(off + i) {
                    Some(&x) if x == b => {}
                    Some(_) => return (off, off + i + 1),
                    None => return (off, ALL),
                }
            }
            (off + pat.len(), if pat.is_empty() { 0 } else { off + pat.len() })
        }
    }
}

pub fn check(c: &Case, obs: &mut Obs) -> CheckResult {
    let data = Rc::new(c.data.clone());
    let (mut r, log) = build_reader(data.clone(), &c.feed, None);
    let got = r.request(c.pre).len();
    let adv = c.adv.min(got);
    r.advance(adv);
    // what the source can deliver: everything, or the bytes in front of its failure
    let avail = c.feed.sched.fail_at.map_or(c.data.len(), |(k, _)| k.min(c.data.len()));
    obs.class_if(c.feed.sched.fail_at.is_some(), "failing-source");
    let s = &c.data[adv..avail.max(adv)];
    let pos0 = r.position();
    let buf0 = r.buf().to_vec();
    let d0 = log.borrow().delivered;
    let (want, need) = reference(s, c.off, c.func, &c.pat);
    let ret = match c.func {
        Func::TabsOrSpaces => flussab::text::tabs_or_spaces(&mut r, c.off),
        Func::Newline => flussab::text::newline(&mut r, c.off),
        Func::NextNewline => flussab::text::next_newline(&mut r, c.off),
        Func::Fixed => flussab::text::fixed(&mut r, c.off, &c.pat),
    };
    let sig = format!("C16:{:?}", c.func);
    obs.class(format!("func/{:?}", c.func));
    obs.class(format!("sched/{}", c.feed.sched.class()));
    let decided_at_edge = need != usize::MAX && need > buf0.len();
    if ret != c.off || decided_at_edge {
        obs.nontrivial();
    }
    obs.class_if(decided_at_edge, "needed-unbuffered-byte");
    obs.class_if(need == usize::MAX, "needed-end-of-input");
    ensure!(
        ret == want,
        format!("{sig}:offset"),
        "{:?}({:?} @ {}{}) returned {}, reference {}",
        c.func,
        show_bytes(s),
        c.off,
        if c.func == Func::Fixed { format!(", pattern {:?}", show_bytes(&c.pat)) } else { String::new() },
        ret,
        want
    );
    ensure!(
        r.position() == pos0,
        format!("{sig}:consumed"),
        "{:?} moved the cursor from {} to {}",
        c.func,
        pos0,
        r.position()
    );
    let buf1 = r.buf();
    if buf1.len() < buf0.len() || buf1[..buf0.len()] != buf0[..] || buf1 != &s[..buf1.len()] {
        fail!(
            format!("{sig}:window"),
            "{:?} changed the buffered window: before {:?}, after {:?}",
            c.func,
            show_bytes(&buf0),
            show_bytes(buf1)
        );
    }
    if !matches!(c.feed.ctor, Ctor::BufReader(_) | Ctor::FreshBufReader(_)) {
        let d1 = log.borrow().delivered;
        let chunk = c.feed.chunk_size();
        let bound = if need == 0 {
            d0
        } else if need == usize::MAX {
            avail
        } else {
            d0.max((adv + need + chunk - 1).min(avail))
        };
        ensure!(
            d1 <= bound,
            format!("{sig}:over-read"),
            "{:?}({:?} @ {}, pattern {:?}): {} bytes were pulled from the source, at most {} are needed to decide \
             ({} buffered before, {} bytes from the cursor decide, chunk {})",
            c.func,
            show_bytes(s),
            c.off,
            show_bytes(&c.pat),
            d1,
            bound,
            d0,
            need,
            chunk
        );
    }
    // After the source's failure was reported the helper still gives the same answer and the
    // source is left alone.
    if c.feed.sched.fail_at.is_some() {
        let calls = log.borrow().calls;
        let _ = r.check_io_error();
        let again = match c.func {
            Func::TabsOrSpaces => flussab::text::tabs_or_spaces(&mut r, c.off),
            Func::Newline => flussab::text::newline(&mut r, c.off),
            Func::NextNewline => flussab::text::next_newline(&mut r, c.off),
            Func::Fixed => flussab::text::fixed(&mut r, c.off, &c.pat),
        };
        let l = log.borrow();
        ensure!(
            again == ret && (!l.terminal_returned || l.calls == calls) && l.calls_after_terminal == 0,
            format!("{sig}:after-error-report"),
            "{:?}({:?} @ {}): first call returned {}, the call after check_io_error() returned {}; source calls {} -> {}, {} of them after it had failed",
            c.func,
            show_bytes(s),
            c.off,
            ret,
            again,
            calls,
            l.calls,
            l.calls_after_terminal
        );
    }
    Ok(())
}

const ALPHABET: [u8; 5] = [b' ', b'\t', b'\r', b'\n', b'x'];

fn enum_feeds() -> Vec<Feed> {
    vec![
        Feed {
            sched: Schedule::whole(),
            chunk: None,
            ctor: Ctor::FromRead,
            late_chunk: false,
        },
        Feed {
            sched: Schedule::bytewise(),
            chunk: Some(1),
            ctor: Ctor::FromRead,
            late_chunk: false,
        },
        Feed {
            sched: Schedule::fixed(3),
            chunk: Some(3),
            ctor: Ctor::Boxed,
            late_chunk: false,
        },
    ]
}

fn run(ctx: &Ctx) {
    if ctx.profile == "unopt" {
        // the extra shard built without optimisation: long runs only, on a 2 MiB stack
        ctx.run_cases("sampled-long", ctx.tier.pick(600, 2_000), long_strategy(), check_small_stack);
        return;
    }
    // ---- complete small scope ----
    let feeds = enum_feeds();
    let mut evals = 0u64;
    let mut nontrivial = 0u64;
    let mut failed = false;
    let mut index = 0u64;
    let mut sampled = 0;
    'outer: for len in 0..=6usize {
        let total = 5usize.pow(len as u32);
        for code in 0..total {
            index += 1;
            if index % crate::engine::NSHARDS as u64 != ctx.shard as u64 {
                continue;
            }
            let mut data = Vec::with_capacity(len);
            let mut x = code;
            for _ in 0..len {
                data.push(ALPHABET[x % 5]);
                x /= 5;
            }
            for off in 0..=len + 1 {
                let rest: &[u8] = if off <= len { &data[off..] } else { &[] };
                let mut pats: Vec<Vec<u8>> = vec![vec![]];
                for k in 1..=rest.len() {
                    pats.push(rest[..k].to_vec());
                    let mut wrong = rest[..k].to_vec();
                    let last = wrong.len() - 1;
                    wrong[last] = if wrong[last] == b'x' { b' ' } else { b'x' };
                    pats.push(wrong);
                }
                let mut longer = rest.to_vec();
                longer.push(b'\n');
                pats.push(longer);
                for (fi, feed) in feeds.iter().enumerate() {
                    let pre = if fi == 0 { len + 1 } else { 0 };
                    let mut one = |func: Func, pat: &[u8]| {
                        let case = Case {
                            data: data.clone(),
                            feed: feed.clone(),
                            pre,
                            adv: 0,
                            off,
                            func,
                            pat: pat.to_vec(),
                        };
                        let mut obs = Obs::default();
                        evals += 1;
                        match check(&case, &mut obs) {
                            Ok(()) => {
                                if obs.nontrivial {
                                    nontrivial += 1;
                                    if sampled < 3 && len >= 4 && fi == 1 {
                                        sampled += 1;
                                        ctx.add_sample(json!({"oracle": "enumerate", "case": case}));
                                    }
                                }
                                true
                            }
                            Err(_) => {
                                // Register through the engine (writes the replay, honours known findings).
                                ctx.run_one("enumerate", &case, check)
                            }
                        }
                    };
                    let mut ok = true;
                    ok &= one(Func::TabsOrSpaces, &[]);
                    ok &= one(Func::Newline, &[]);
                    ok &= one(Func::NextNewline, &[]);
                    for p in &pats {
                        ok &= one(Func::Fixed, p);
                    }
                    if !ok {
                        failed = true;
                        break 'outer;
                    }
                }
            }
        }
    }
    ctx.tally_enumerated(evals, nontrivial);
    ctx.count("enumerate/calls", evals);
    if !failed {
        ctx.exhaustive_part(
            "all 19531 strings over {SP,TAB,CR,LF,x} of length 0..6, every offset, 3 feeds, all four scanners with every prefix pattern",
        );
    }

    // ---- sampled beyond the small scope ----
    let byte = prop_oneof![
        3 => Just(b' '),
        2 => Just(b'\t'),
        2 => Just(b'\r'),
        3 => Just(b'\n'),
        3 => b'a'..=b'z',
        2 => any::<u8>(),
        // neighbours and bit-flipped relatives of the special bytes (SWAR tricks get these wrong)
        2 => proptest::sample::select(vec![
            0x08u8, 0x0b, 0x0c, 0x0e, 0x1f, 0x21, 0x28, 0x29, 0x2a, 0x49, 0x60, 0x89, 0x8a, 0x8d, 0xa0, 0xa9, 0xc9, 0xe0, 0x00, 0x01, 0x7f,
            0x80, 0xff,
        ]),
    ];
    let strat = (
        proptest::collection::vec(byte, 0..300),
        feed_strategy(),
        any::<u16>(),
        any::<u16>(),
        any::<u16>(),
        prop_oneof![
            Just(Func::TabsOrSpaces),
            Just(Func::Newline),
            Just(Func::NextNewline),
            Just(Func::Fixed)
        ],
        any::<u16>(),
        0u8..4,
        proptest::option::weighted(0.15, (any::<u16>(), crate::source::errkind_strategy())),
    )
        .prop_map(|(data, mut feed, pre, adv, off, func, plen, pkind, fail)| {
            let n = data.len();
            if let Some((f, kind)) = fail {
                feed.sched.fail_at = Some(((f as usize * (n + 1)) >> 16, kind));
            }
            let pre = (pre as usize * (n + 2)) >> 16;
            let adv = (adv as usize * (pre.min(n) + 1)) >> 16;
            let rem = n - adv.min(n);
            let off = (off as usize * (rem + 2)) >> 16;
            let rest: &[u8] = if adv + off <= n { &data[adv + off..] } else { &[] };
            let k = (plen as usize * (rest.len() + 1)) >> 16;
            let mut pat = rest[..k].to_vec();
            match pkind {
                1 if !pat.is_empty() => {
                    let l = pat.len() - 1;
                    pat[l] = pat[l].wrapping_add(1);
                }
                2 => {
                    pat = rest.to_vec();
                    pat.extend_from_slice(b"zz");
                }
                3 if !pat.is_empty() => {
                    let m = pat.len() / 2;
                    pat[m] ^= 0x20;
                }
                _ => {}
            }
            Case {
                data,
                feed,
                pre,
                adv,
                off,
                func,
                pat: if func == Func::Fixed { pat } else { vec![] },
            }
        });
    let n = ctx.share(ctx.tier.pick(1_500_000, 40_000_000));
    ctx.run_cases("sampled", n, strat, check);

    // ---- long runs: lines and blank runs of kilobytes (beyond any fixed look-ahead block, beyond
    // the default chunk), with generated and with default-sized feeds; on a 2 MiB stack ----
    let n = ctx.share(ctx.tier.pick(24_000, 640_000));
    ctx.run_cases("sampled-long", n, long_strategy(), check_small_stack);
}

pub fn check_small_stack(c: &Case, obs: &mut Obs) -> CheckResult {
    crate::engine::on_small_stack(|| check(c, obs))
}

fn long_strategy() -> impl Strategy<Value = Case> {
    let seg = (
        0u8..6,
        prop_oneof![
            8 => 1usize..=10,
            6 => 100usize..=3000,
            4 => 3000usize..=20000,
            2 => 20000usize..=40000,
            1 => 100_000usize..=400_000
        ],
    );
    (
        proptest::collection::vec(seg, 1..6),
        feed_strategy(),
        any::<bool>(),
        any::<u16>(),
        any::<u16>(),
        any::<u16>(),
        prop_oneof![Just(Func::TabsOrSpaces), Just(Func::NextNewline), Just(Func::Newline), Just(Func::Fixed)],
        any::<u16>(),
    )
        .prop_map(|(segs, mut feed, default_chunk, pre, adv, off, func, plen)| {
            let mut data = vec![];
            for (kind, len) in segs {
                match kind {
                    0 => data.extend((0..len).map(|i| if i % 7 == 3 { b'\t' } else { b' ' })),
                    1 => data.extend((0..len).map(|i| b'a' + (i % 26) as u8)),
                    2 => data.extend((0..len).map(|i| b'0' + (i % 10) as u8)),
                    3 => data.push(b'\n'),
                    4 => data.extend_from_slice(b"\r\n"),
                    _ => data.extend((0..len).map(|i| if i % 2 == 0 { b' ' } else { b'x' })),
                }
            }
            if default_chunk || data.len() > 100_000 {
                // (a megabyte in one-byte reads is not affordable)
                feed.chunk = None;
                if data.len() > 100_000 {
                    feed.sched = Schedule::whole();
                }
            }
            let n = data.len();
            // a long look-ahead first, then (one case in four) most of it is advanced over
            let pre = (pre as usize * (n + 2)) >> 16;
            let adv = if adv % 4 == 0 { ((adv as usize >> 2) * (pre.min(n) + 1)) >> 14 } else { 0 };
            let rem = n - adv.min(n);
            let off = if off % 4 == 0 { (off as usize * (rem + 2)) >> 16 } else { 0 };
            let rest: &[u8] = if adv + off <= n { &data[adv + off..] } else { &[] };
            let k = (plen as usize * (rest.len() + 1)) >> 16;
            let pat = if func == Func::Fixed { rest[..k].to_vec() } else { vec![] };
            Case {
                data,
                feed,
                pre,
                adv,
                off,
                func,
                pat,
            }
        })
}

fn replay(oracle: &str, v: &Value) -> Option<CheckResult> {
    match oracle {
        "sampled-long" => Some(match replay_from_file::<Case>(v) {
            Ok(c) => check_small_stack(&c, &mut Obs::default()),
            Err(e) => Err(Failure::new("C16:decode", e)),
        }),
        "enumerate" | "sampled" => Some(match replay_from_file::<Case>(v) {
            Ok(c) => check(&c, &mut Obs::default()),
            Err(e) => Err(Failure::new("C16:decode", e)),
        }),
        _ => None,
    }
}

//! C14 — safe calls never expose memory outside the buffered data, even after panics.
use proptest::prelude::*;
use serde_json::Value;

use super::PropDef;
use crate::engine::{replay_from_file, CheckResult, Ctx, Failure, Obs};
use crate::reader_model::{self, history_strategy, run_history, History, Oracles};
use crate::writer_model::{self, run_whistory, whistory_strategy, WHistory, WOracles};

pub fn def() -> PropDef {
    PropDef {
        id: "C14",
        level: "exploration",
        profiles: &["checked", "fast", "asan"],
        abort_is_violation: true,
        rule: "the C02 reader histories extended with advance(n)/advance_with_buf(n) for n > buffered (incl. \
               usize::MAX - small), caught with catch_unwind, and sources that report more bytes than the slice \
               they were given; the C11 writer histories extended with panicking sinks and buf_write_ptr(len) for \
               absurd lengths. After every step, in particular after every caught panic, buf_len()/buf() must \
               equal the model window (never longer than what the source delivered, content equal to the source \
               bytes); documented panics must happen; a non-null buf_write_ptr must not claim more than the \
               buffer can hold. Executed in a build with debug assertions + overflow checks, in a plain release \
               build, and under AddressSanitizer when the nightly toolchain provides it; a worker crash is a \
               violation. Histories also set absurd chunk sizes (usize::MAX - k: the refill panics, the window must \
               survive). The parsers' raw 8-byte loads are covered by running the C01 comparison (one-shot versus \
               re-chunked, all input classes) in the same three builds, the format writers' use of the buffer by \
               writing generated documents with a chosen token 0..45 bytes in front of the buffer end. Non-trivial: at least one caught panic followed by >= 2 further observed operations.",
        assumptions: &[
            "reads of stale bytes inside the reader's own allocation are only caught when they change an observable result",
            "AddressSanitizer shards run only if `cargo +nightly build -Zsanitizer=address` works in the sandbox (reported in notes otherwise)",
        ],
        exhaustive: |_| false,
        run,
        replay,
    }
}

const R_WHICH: Oracles = Oracles {
    window: false,
    reads: false,
    safety: true,
};
const W_WHICH: WOracles = WOracles {
    stream: false,
    safety: true,
};

pub fn check_reader(h: &History, obs: &mut Obs) -> CheckResult {
    let st = run_history(h, R_WHICH, "C14")?;
    reader_model::classify(h, &st, obs);
    obs.class_if(st.overreport_panics > 0, "overreporting-source-caught");
    if st.caught_panics > 0 && st.ops_after_panic >= 2 {
        obs.nontrivial();
    }
    Ok(())
}

pub fn check_writer(h: &WHistory, obs: &mut Obs) -> CheckResult {
    let st = run_whistory(h, W_WHICH, "C14")?;
    writer_model::classify(h, &st, obs);
    if (st.sink_panics > 0 && st.ops_after_panic >= 2) || st.absurd_ptr > 0 {
        obs.nontrivial();
    }
    Ok(())
}

/// The parsers read the reader's buffer through raw pointers (8-byte loads of the keyword and
/// number scanners). Memory safety of those loads is observable in two ways: the sanitizer shard
/// aborts on a load outside the allocation, and a load of stale bytes inside the allocation changes
/// a result that must not depend on how the bytes arrive. So: the C01 comparison (one-shot versus
/// re-chunked), executed in all three builds, with any panic counted as a failure.
pub fn check_parsers(c: &crate::props::c01::Case, obs: &mut Obs) -> CheckResult {
    let retag = |f: Failure| Failure::new(format!("C14:parsers:{}", f.sig), f.detail);
    crate::props::c01::check(c, obs).map_err(retag)?;
    let data = std::rc::Rc::new(c.input.bytes.clone());
    for feed in [crate::source::Feed::one_shot(), c.feed.clone()] {
        let (t, _) = crate::drivers::run(&c.input.spec, data.clone(), &feed, None, false);
        if let crate::drivers::Final::Panic { msg, loc } = &t.fin {
            return Err(Failure::new(
                format!("C14:parsers:panic:{}", c.input.spec.parser.name()),
                format!("{} panicked at {}: {}; input {:?}", c.input.spec.describe(), loc, msg, crate::engine::show_bytes(&data)),
            ));
        }
    }
    Ok(())
}

/// The format writers place numbers and codes into the buffer next to its end (the C03 oracle
/// `forward-at-buffer-end`); here it runs in all three builds: a write one byte past the buffer
/// is a debug assertion in one, a sanitizer report in another.
pub fn check_writers(c: &crate::props::c03::AtEnd, obs: &mut Obs) -> CheckResult {
    crate::props::c03::check_at_buffer_end(c, obs).map_err(|f| Failure::new(format!("C14:writers:{}", f.sig), f.detail))
}

fn run(ctx: &Ctx) {
    let n = ctx.share(ctx.tier.pick(120_000, 3_000_000));
    ctx.run_cases("writers-at-buffer-end", n, crate::props::c03::at_end_strategy(), check_writers);
    let n = ctx.share(ctx.tier.pick(120_000, 3_000_000));
    let strat = (crate::inputs::input_strategy(10, true), crate::source::parser_feed_strategy())
        .prop_map(|(input, feed)| crate::props::c01::Case { input, feed });
    ctx.run_cases("parsers", n, strat, check_parsers);
    let n = ctx.share(ctx.tier.pick(160_000, 3_000_000));
    let strat = (
        history_strategy(400, 50, true),
        proptest::option::weighted(0.25, (1u32..6, 0u32..5)),
    )
        .prop_map(|(mut h, over)| {
            h.feed.sched.overreport = over;
            h
        });
    ctx.run_cases("reader-history", n, strat, check_reader);
    let n = ctx.share(ctx.tier.pick(80_000, 1_500_000));
    ctx.run_cases("writer-history", n, whistory_strategy(40, true), check_writer);
}

fn replay(oracle: &str, v: &Value) -> Option<CheckResult> {
    match oracle {
        "writers-at-buffer-end" => Some(match replay_from_file::<crate::props::c03::AtEnd>(v) {
            Ok(c) => check_writers(&c, &mut Obs::default()),
            Err(e) => Err(Failure::new("C14:decode", e)),
        }),
        "parsers" => Some(match replay_from_file::<crate::props::c01::Case>(v) {
            Ok(c) => check_parsers(&c, &mut Obs::default()),
            Err(e) => Err(Failure::new("C14:decode", e)),
        }),
        "reader-history" => Some(match replay_from_file::<History>(v) {
            Ok(h) => check_reader(&h, &mut Obs::default()),
            Err(e) => Err(Failure::new("C14:decode", e)),
        }),
        "writer-history" => Some(match replay_from_file::<WHistory>(v) {
            Ok(h) => check_writer(&h, &mut Obs::default()),
            Err(e) => Err(Failure::new("C14:decode", e)),
        }),
        _ => None,
    }
}

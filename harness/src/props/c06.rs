//! C06 — accepted input means what it says: exact numbers, enforced limits.
use std::rc::Rc;

use proptest::prelude::*;
use serde::{Deserialize, Serialize};
use serde_json::Value;

use super::PropDef;
use crate::drivers::{self, Final, Item, ParserId, Spec};
use crate::engine::{replay_from_file, show_bytes, CheckResult, Ctx, Failure, Obs};
use crate::fail;
use crate::gen::{btor_words, choices_strategy, doc_strategy, spec_strategy, AigDoc, Doc, Role};
use crate::inputs::{boundary_numbers, input_strategy, Input};
use crate::refs::{aiger_prefix_len, read_aiger, read_dimacs, read_log, symbol_limit_violation, Reading};
use crate::source::Feed;

pub fn def() -> PropDef {
    PropDef {
        id: "C06",
        level: "exploration",
        profiles: &["checked", "fast"],
        abort_is_violation: false,
        rule: "inputs: (a) valid documents of every format whose numbers are replaced by boundary values relative to \
               the literal type and the declared header values (MAX, MAX+1, V, V+1, 2M+1, 2M+2, 2^k-1/2^k/2^k+1, \
               7/8/9-digit and 40-digit spellings, leading zeros), (b) documents with exactly one declared-limit \
               violation (one clause too many / too few, literal or group above the declared count, variable count \
               above the type's maximum, I+L+A = M+1, M above the type's limit, odd or zero defined literal, binary \
               delta above the reference code), (c) all C01 input classes; each under a generated feed so that both \
               scanner paths read the tokens. Oracle: an independent reader (line split, whitespace tokens, wide \
               decimals, 7-bit groups) classifies the text as must-reject / accept-with-these-items / undecided; \
               if the parser accepts, the reader must not say must-reject and the parser's items must equal the \
               reader's (BTOR2: every returned line re-rendered must equal the text line). Rejections of inputs \
               the reader accepts are not reported here. Non-trivial: the reader reached a verdict (accept or \
               must-reject) on an input containing a boundary number or a limit violation. Distinct by hash. \
               Beyond the listed literal types: small AIGER files with M around the limit are parsed with a caller-defined \
               literal type (the Lit trait is public) whose MAX_CODE is 28, 29, 30 or 31; its from_code must never \
               receive a code above MAX_CODE, M is accepted exactly when 2M+1 <= MAX_CODE.",
        assumptions: &[
            "shards alternate between a build with overflow checks and a plain release build: a wrap-around that panics in the former (C05's business) is a silently accepted wrong number in the latter",
            "the reference readers in harness/src/refs.rs follow the format descriptions; texts they do not understand yield no verdict (counted as undecided)",
        ],
        exhaustive: |_| false,
        run,
        replay,
    }
}

#[derive(Serialize, Deserialize, Clone, Debug, PartialEq, Eq, Hash)]
pub struct Case {
    pub input: Input,
    pub feed: Feed,
}

fn stream_items(spec: &Spec, items: &[Item]) -> Vec<Item> {
    // bring parse() results into the streaming form the reference produces
    match (spec.parser, items) {
        (ParserId::AagParse, [Item::Aig(a)]) => AigDoc {
            binary: false,
            aig: (**a).clone(),
            header_fields: 9,
        }
        .expected_stream(),
        (ParserId::AigParse, [Item::Aig(a)]) => AigDoc {
            binary: true,
            aig: (**a).clone(),
            header_fields: 9,
        }
        .expected_stream(),
        _ => items.to_vec(),
    }
}

fn btor_lines_match(bytes: &[u8], items: &[Item]) -> Result<(), String> {
    let mut lines = bytes
        .split(|&c| c == b'\n')
        .map(|l| {
            let mut l = l;
            while l.first() == Some(&b' ') {
                l = &l[1..];
            }
            l
        })
        .filter(|l| !l.is_empty());
    for it in items {
        let Item::Btor(line) = it else { continue };
        let Some(text) = lines.next() else {
            return Err("more lines reported than the text has".into());
        };
        let mut rendered = vec![];
        for (i, (w, _)) in btor_words(line).iter().enumerate() {
            if i > 0 {
                rendered.push(b' ');
            }
            rendered.extend_from_slice(w);
        }
        if rendered != text {
            return Err(format!(
                "reported line renders as {:?} but the text line is {:?}",
                show_bytes(&rendered),
                show_bytes(text)
            ));
        }
    }
    if lines.next().is_some() {
        return Err("the text has more lines than were reported".into());
    }
    Ok(())
}

pub fn check(c: &Case, obs: &mut Obs) -> CheckResult {
    let spec = c.input.spec;
    let data = Rc::new(c.input.bytes.clone());
    let (t, _) = drivers::run(&spec, data.clone(), &c.feed, None, true);
    obs.class(format!("parser/{}", spec.parser.name()));
    obs.class(format!("lit/{}", spec.lit_name()));
    obs.class(format!("input/{}", c.input.class));
    let accepted = t.fin == Final::End;
    obs.class(if accepted { "parser/accepted" } else { "parser/not-accepted" });
    let p = spec.parser.name();
    if spec.parser == ParserId::Btor2 {
        if accepted {
            obs.nontrivial = c.input.class.starts_with("boundary") || c.input.class.starts_with("violation");
            if let Err(why) = btor_lines_match(&data, &t.items) {
                fail!(
                    format!("C06:{p}:value"),
                    "{}: accepted, but {}; input {:?}",
                    spec.describe(),
                    why,
                    show_bytes(&data)
                );
            }
        }
        return Ok(());
    }
    let reading = match spec.parser {
        ParserId::Cnf | ParserId::Wcnf | ParserId::Gcnf => read_dimacs(&spec, &data),
        ParserId::Log => read_log(&spec, &data),
        _ => read_aiger(&spec, &data),
    };
    let interesting = c.input.class.starts_with("boundary") || c.input.class.starts_with("violation");
    match &reading {
        Reading::Undecided(_) => {
            obs.class("reference/undecided");
            Ok(())
        }
        Reading::MustReject(why) => {
            obs.class("reference/must-reject");
            if interesting {
                obs.nontrivial();
            }
            if accepted {
                fail!(
                    format!("C06:{p}:accepted-limit-violation"),
                    "{} accepted an input that violates a limit: {}; returned {:?}; chunk {:?}; input {:?}",
                    spec.describe(),
                    why,
                    t.items.iter().take(6).collect::<Vec<_>>(),
                    c.feed.chunk,
                    show_bytes(&data)
                );
            }
            Ok(())
        }
        Reading::Accept(want) => {
            obs.class("reference/accept");
            if !accepted {
                obs.class("reference/accept-but-parser-rejects");
                if std::env::var_os("FV_DEBUG_C06").is_some() {
                    fail!(
                        format!("C06:{p}:debug-reference-accepts"),
                        "{}: reference accepts, parser says [{}]; input {:?}",
                        spec.describe(),
                        t.fin.short(),
                        show_bytes(&data)
                    );
                }
                return Ok(());
            }
            if interesting {
                obs.nontrivial();
            }
            let got = stream_items(&spec, &t.items);
            let filtered;
            let want: &Vec<Item> = if spec.skip_mode() {
                filtered = crate::drivers::skip_filter(want);
                &filtered
            } else {
                want
            };
            let (got_cmp, want_cmp): (&[Item], &[Item]) = if spec.parser.is_aiger() {
                let n = aiger_prefix_len(&got);
                (&got[..n], &want[..])
            } else {
                (&got[..], &want[..])
            };
            if got_cmp != want_cmp {
                let i = got_cmp
                    .iter()
                    .zip(want_cmp.iter())
                    .position(|(a, b)| a != b)
                    .unwrap_or(got_cmp.len().min(want_cmp.len()));
                fail!(
                    format!("C06:{p}:value"),
                    "{}: item {} returned as {:?} but the text says {:?} ({} vs {} items); chunk {:?}; input {:?}",
                    spec.describe(),
                    i,
                    got_cmp.get(i),
                    want_cmp.get(i),
                    got_cmp.len(),
                    want_cmp.len(),
                    c.feed.chunk,
                    show_bytes(&data)
                );
            }
            if spec.parser.is_aiger() {
                if let Some(why) = symbol_limit_violation(&got) {
                    fail!(
                        format!("C06:{p}:symbol-index"),
                        "{} accepted {}; input {:?}",
                        spec.describe(),
                        why,
                        show_bytes(&data)
                    );
                }
            }
            Ok(())
        }
    }
}

/// Valid document with one number replaced by a boundary value relative to the type / header.
fn boundary_strategy() -> impl Strategy<Value = Input> {
    spec_strategy()
        .prop_flat_map(|spec| {
            (
                Just(spec),
                doc_strategy(spec, 6),
                choices_strategy(),
                any::<bool>(),
                proptest::collection::vec((any::<u16>(), any::<u16>(), any::<bool>()), 1..3),
            )
        })
        .prop_map(|(spec, doc, choices, fancy, subs)| {
            let junk = spec.parser == ParserId::Log && spec.flag;
            let r = doc.render(&choices, fancy, junk);
            let mut bytes = r.bytes.clone();
            // boundary table relative to this document
            let mut table: Vec<String> = boundary_numbers().into_iter().filter(|s| s.bytes().all(|b| b.is_ascii_digit() || b == b'-')).collect();
            let tm = if spec.parser.is_dimacs() { spec.max_dimacs() as u128 } else { spec.max_code() };
            for v in [tm, tm + 1, tm - 1, (tm - 1) / 2, (tm - 1) / 2 + 1] {
                table.push(v.to_string());
                table.push(format!("-{v}"));
                table.push(format!("000{v}"));
            }
            match &doc {
                Doc::Dimacs(d) => {
                    if let Some((v, n, g)) = d.header {
                        for x in [v, v + 1, n, n.wrapping_add(1), g, g.wrapping_add(1)] {
                            table.push(x.to_string());
                            table.push(format!("-{x}"));
                        }
                    }
                }
                Doc::Aiger(a) => {
                    let m = a.aig.max_var_index as u128;
                    for x in [2 * m, 2 * m + 1, 2 * m + 2, 2 * m + 3, m, m + 1] {
                        table.push(x.to_string());
                    }
                }
                _ => {}
            }
            // apply substitutions from the back so that earlier token offsets stay valid
            let mut nums: Vec<_> = r
                .toks
                .iter()
                .filter(|t| matches!(t.role, Role::Num | Role::Term0) && t.end <= r.bytes.len() && t.start < t.end)
                .collect();
            nums.sort_by_key(|t| std::cmp::Reverse(t.start));
            let mut used = std::collections::BTreeSet::new();
            for (pick, val, keep_sign) in subs {
                if nums.is_empty() {
                    break;
                }
                let idx = (pick as usize * nums.len()) >> 16;
                if !used.insert(idx) {
                    continue;
                }
                let t = nums[idx];
                let mut s = table[(val as usize * table.len()) >> 16].clone();
                if spec.parser.is_aiger() || spec.parser == ParserId::Btor2 {
                    s = s.trim_start_matches('-').to_string();
                }
                let _ = keep_sign;
                let with = if r.bytes[t.start] == b'{' { format!("{{{}}}", s.trim_start_matches('-')) } else { s };
                // only valid when no later substitution moved bytes before this token: we go from
                // the back, but picks are arbitrary; recompute offsets conservatively
                if used.iter().all(|&u| u == idx || nums[u].start > t.start) {
                    bytes.splice(t.start..t.end, with.into_bytes());
                }
            }
            Input {
                spec,
                bytes,
                class: "boundary-number".into(),
            }
        })
}

/// Valid document + exactly one declared-limit violation at the abstract level.
fn violation_strategy() -> impl Strategy<Value = Input> {
    spec_strategy()
        .prop_flat_map(|spec| (Just(spec), doc_strategy(spec, 6), 0u8..8, any::<u16>()))
        .prop_map(|(mut spec, mut doc, kind, pick)| {
            let mut class = "violation/none-applicable".to_string();
            match &mut doc {
                Doc::Dimacs(d) => {
                    spec.flag = false;
                    let n = d.clauses.len() as u64;
                    let max_var = d.clauses.iter().flat_map(|(_, l)| l.iter()).map(|l| l.unsigned_abs()).max().unwrap_or(0).max(1);
                    let max_group = d.clauses.iter().map(|(g, _)| *g).max().unwrap_or(0);
                    let tmax = spec.max_dimacs() as u64;
                    let third = if d.kind == ParserId::Gcnf { max_group.max(1) } else { 9 };
                    match kind % 5 {
                        0 if max_var < tmax && n > 0 => {
                            d.header = Some((max_var, n, third));
                            let i = (pick as usize * d.clauses.len()) >> 16;
                            d.clauses[i].1.push(if pick % 2 == 0 { max_var as i64 + 1 } else { -(max_var as i64) - 1 });
                            class = "violation/literal-above-declared".into();
                        }
                        1 if n > 0 => {
                            // (the variable count may be unspecified while the other counts are not)
                            let max_var = if pick % 3 == 0 { 0 } else { max_var };
                            d.header = Some((max_var, n + 1, third));
                            class = "violation/one-clause-missing".into();
                        }
                        2 if n > 1 => {
                            let max_var = if pick % 3 == 0 { 0 } else { max_var };
                            d.header = Some((max_var, n - 1, third));
                            class = "violation/one-clause-extra".into();
                        }
                        3 if d.kind == ParserId::Gcnf && n > 0 && max_group < u64::MAX - 1 => {
                            let max_var = if pick % 3 == 0 { 0 } else { max_var };
                            let n = if pick % 5 == 0 { 0 } else { n };
                            d.header = Some((max_var, n, max_group.max(1)));
                            let i = (pick as usize * d.clauses.len()) >> 16;
                            d.clauses[i].0 = max_group.max(1) + 1;
                            class = "violation/group-above-declared".into();
                        }
                        4 if tmax < i64::MAX as u64 && n > 0 => {
                            d.header = None;
                            let i = (pick as usize * d.clauses.len()) >> 16;
                            d.clauses[i].1.push(if pick % 2 == 0 { tmax as i64 + 1 } else { -(tmax as i64) - 1 });
                            class = "violation/literal-above-type".into();
                        }
                        _ => {}
                    }
                }
                Doc::Aiger(a) => {
                    let m = a.aig.max_var_index;
                    let used = a.aig.input_count + a.aig.latches.len() as u64 + a.aig.ands.len() as u64;
                    // sections of the file and how many entries each has
                    let counts: [(char, usize); 7] = [
                        ('i', a.aig.input_count as usize),
                        ('l', a.aig.latches.len()),
                        ('o', a.aig.outputs.len()),
                        ('b', a.aig.bad.len()),
                        ('c', a.aig.constraints.len()),
                        ('j', a.aig.justice.len()),
                        ('f', a.aig.fairness.len()),
                    ];
                    let empty: Vec<char> = counts.iter().filter(|(_, n)| *n == 0).map(|(c, _)| *c).collect();
                    if kind >= 5 && !empty.is_empty() {
                        // a symbol for entry 0 of a section that has no entries
                        let ch = empty[(pick as usize * empty.len()) >> 16];
                        a.aig.symbols.push((ch, 0, "name".into()));
                        class = "violation/symbol-for-empty-section".into();
                    } else {
                    match kind % 5 {
                        0 if !a.aig.outputs.is_empty() && m < u64::MAX / 2 - 2 => {
                            let i = (pick as usize * a.aig.outputs.len()) >> 16;
                            a.aig.outputs[i] = 2 * m + 2 + (pick as u64 % 2);
                            class = "violation/literal-above-2m1".into();
                        }
                        1 if used > 0 && used == m => {
                            a.aig.max_var_index = m - 1;
                            class = "violation/i+l+a-above-m".into();
                        }
                        2 if !a.binary && !a.aig.inputs.is_empty() => {
                            let i = (pick as usize * a.aig.inputs.len()) >> 16;
                            a.aig.inputs[i] = if pick % 2 == 0 { 0 } else { a.aig.inputs[i] | 1 };
                            class = "violation/defined-literal-odd-or-zero".into();
                        }
                        3 => {
                            let lim = ((spec.max_code() - 1) / 2) as u64;
                            if lim < u64::MAX / 2 {
                                a.aig.max_var_index = lim + 1;
                                class = "violation/m-above-type".into();
                            }
                        }
                        4 if a.binary && !a.aig.ands.is_empty() => {
                            // first input above the gate's own code: the delta would be negative; the
                            // reference renderer wraps it into a huge varint
                            let g = a.aig.ands.len() - 1;
                            let code = 2 * (a.aig.input_count + a.aig.latches.len() as u64 + g as u64 + 1);
                            a.aig.ands[g].1 = code + 1 + (pick as u64 % 3);
                            class = "violation/binary-delta-above-code".into();
                        }
                        _ => {}
                    }
                    }
                }
                _ => {}
            }
            let junk = spec.parser == ParserId::Log && spec.flag;
            let bytes = doc.render(&[], false, junk).bytes;
            Input { spec, bytes, class }
        })
}

// ---------------------------------------------------------------------------------------------
// A literal type of the caller (the `Lit` trait is public) whose MAX_CODE is not of the form
// 2^k - 1: the header limit has to be derived from MAX_CODE for even and odd values alike.

thread_local! {
    static MAX_CODE_SEEN: std::cell::Cell<usize> = const { std::cell::Cell::new(0) };
}

#[derive(Clone, Copy, PartialEq, Eq, Hash, Debug)]
struct Small<const MAX: usize>(u8);

impl<const MAX: usize> flussab_aiger::Lit for Small<MAX> {
    const MAX_CODE: usize = MAX;
    fn from_code(code: usize) -> Self {
        MAX_CODE_SEEN.with(|m| m.set(m.get().max(code)));
        Small(code as u8)
    }
    fn code(self) -> usize {
        self.0 as usize
    }
}

#[derive(Serialize, Deserialize, Clone, Debug, PartialEq, Eq, Hash)]
pub struct CustomLitCase {
    pub binary: bool,
    /// MAX_CODE of the literal type: 28..=31.
    pub max_code: u8,
    pub m: u8,
    pub inputs: u8,
    pub gates: u8,
    pub outputs: Vec<u8>,
}

fn custom_lit_text(c: &CustomLitCase) -> Vec<u8> {
    let m = c.m as usize;
    let (i, a) = if c.binary {
        // binary files number inputs and gates consecutively: I + A = M
        let a = (c.gates as usize).min(m);
        (m - a, a)
    } else {
        ((c.inputs as usize).min(m), 0)
    };
    let mut s = format!("{} {} {} 0 {} {}\n", if c.binary { "aig" } else { "aag" }, m, i, c.outputs.len(), a).into_bytes();
    if !c.binary {
        for k in 1..=i {
            s.extend_from_slice(format!("{}\n", 2 * k).as_bytes());
        }
    }
    for o in &c.outputs {
        // literals up to 2M+1 are legal
        s.extend_from_slice(format!("{}\n", (*o as usize) % (2 * m + 2)).as_bytes());
    }
    for _ in 0..a {
        s.extend_from_slice(&[1, 0]); // gate g = (g-1) & (g-1)
    }
    s
}

pub fn check_custom_lit(c: &CustomLitCase, obs: &mut Obs) -> CheckResult {
    fn parse<const MAX: usize>(binary: bool, text: &[u8]) -> Result<usize, String> {
        if binary {
            flussab_aiger::binary::Parser::<Small<MAX>>::from_read(text, flussab_aiger::binary::Config::default())
                .and_then(|p| p.parse())
                .map(|aig| aig.max_var_index)
                .map_err(|e| e.to_string())
        } else {
            flussab_aiger::ascii::Parser::<Small<MAX>>::from_read(text, flussab_aiger::ascii::Config::default())
                .and_then(|p| p.parse())
                .map(|aig| aig.max_var_index)
                .map_err(|e| e.to_string())
        }
    }
    let text = custom_lit_text(c);
    MAX_CODE_SEEN.with(|m| m.set(0));
    let max_code = 28 + (c.max_code as usize % 4);
    let r = match max_code {
        28 => parse::<28>(c.binary, &text),
        29 => parse::<29>(c.binary, &text),
        30 => parse::<30>(c.binary, &text),
        _ => parse::<31>(c.binary, &text),
    };
    let seen = MAX_CODE_SEEN.with(|m| m.get());
    obs.class(format!("max-code/{max_code}"));
    obs.class(if r.is_ok() { "accepted" } else { "rejected" });
    let fits = 2 * c.m as usize + 1 <= max_code;
    obs.class_if(2 * c.m as usize + 1 == max_code || 2 * c.m as usize == max_code, "m-at-the-limit");
    obs.nontrivial();
    if seen > max_code {
        fail!(
            "C06:custom-lit:code-beyond-max",
            "a literal type with MAX_CODE = {max_code} was handed code {seen} by the {} parser ({:?}); input {:?}",
            if c.binary { "binary" } else { "ASCII" },
            r,
            show_bytes(&text)
        );
    }
    if r.is_ok() && !fits {
        fail!(
            "C06:custom-lit:header-limit",
            "M = {} was accepted for a literal type with MAX_CODE = {max_code} (literal 2M+1 = {} does not fit); input {:?}",
            c.m,
            2 * c.m as usize + 1,
            show_bytes(&text)
        );
    }
    if let (Err(e), true) = (&r, fits) {
        fail!(
            "C06:custom-lit:rejected",
            "a well-formed file with M = {} was rejected for a literal type with MAX_CODE = {max_code}: {e}; input {:?}",
            c.m,
            show_bytes(&text)
        );
    }
    Ok(())
}

fn run(ctx: &Ctx) {
    let n = ctx.share(ctx.tier.pick(40_000, 1_200_000));
    let strat = (
        any::<bool>(),
        0u8..4,
        prop_oneof![3 => 12u8..=17, 1 => 0u8..=20],
        0u8..=20,
        0u8..=6,
        proptest::collection::vec(prop_oneof![2 => any::<u8>(), 1 => Just(255u8), 1 => Just(254u8)], 0..4),
    )
        .prop_map(|(binary, max_code, m, inputs, gates, outputs)| CustomLitCase {
            binary,
            max_code,
            m,
            inputs,
            gates,
            outputs,
        });
    ctx.run_cases("custom-literal-type", n, strat, check_custom_lit);
    let n = ctx.share(ctx.tier.pick(1_500_000, 90_000_000));
    let strat = (
        prop_oneof![
            4 => boundary_strategy(),
            3 => violation_strategy(),
            3 => input_strategy(8, true),
        ],
        crate::source::parser_feed_strategy(),
    )
        .prop_map(|(input, feed)| Case { input, feed });
    ctx.run_cases("reference-reading", n, strat, check);
}

fn replay(oracle: &str, v: &Value) -> Option<CheckResult> {
    match oracle {
        "custom-literal-type" => Some(match replay_from_file::<CustomLitCase>(v) {
            Ok(c) => check_custom_lit(&c, &mut Obs::default()),
            Err(e) => Err(Failure::new("C06:decode", e)),
        }),
        "reference-reading" => Some(match replay_from_file::<Case>(v) {
            Ok(c) => check(&c, &mut Obs::default()),
            Err(e) => Err(Failure::new("C06:decode", e)),
        }),
        _ => None,
    }
}

#[allow(dead_code)]
fn _unused(_: Feed) {}

//! Registry of property checks.
use serde_json::Value;

use crate::engine::{CheckResult, Ctx, Tier};

pub mod c01;
pub mod c02;
pub mod c03;
pub mod c04;
pub mod c05;
pub mod c06;
pub mod c07;
pub mod c08;
pub mod c09;
pub mod c10;
pub mod c11;
pub mod c12;
pub mod c13;
pub mod c14;
pub mod c15;
pub mod c16;

pub struct PropDef {
    pub id: &'static str,
    pub level: &'static str,
    /// Build profiles the shards are distributed over (round robin).
    pub profiles: &'static [&'static str],
    /// A worker that dies (abort, signal, CPU watchdog) is a violation of this property; for the
    /// others it only makes the run inconclusive.
    pub abort_is_violation: bool,
    pub rule: &'static str,
    pub assumptions: &'static [&'static str],
    pub exhaustive: fn(Tier) -> bool,
    pub run: fn(&Ctx),
    /// Re-executes one serialised case; `None` when the oracle name is unknown.
    pub replay: fn(&str, &Value) -> Option<CheckResult>,
}

pub fn all() -> Vec<PropDef> {
    vec![c01::def(), c02::def(), c03::def(), c04::def(), c05::def(), c06::def(), c07::def(), c08::def(), c09::def(), c10::def(), c11::def(), c12::def(), c13::def(), c14::def(), c15::def(), c16::def()]
}

pub fn find(id: &str) -> Option<PropDef> {
    all().into_iter().find(|p| p.id == id)
}

/// Generator classes that must occur in every run of a property; a class with zero hits is a
/// generator defect (exit 2), not a violation.
pub fn required_classes(id: &str) -> Vec<String> {
    let mut v: Vec<String> = vec![];
    if id == "C03" {
        for f in [
            "dimacs-literal-max",
            "dimacs-literal-min",
            "dimacs-empty-clause",
            "dimacs-zero-header-field",
            "dimacs-weight-max",
            "aiger-trailing-zero-header-fields-dropped",
            "aiger-latch-reset-1",
            "aiger-latch-reset-0",
            "aiger-latch-uninitialised",
            "aiger-symbol-i",
            "aiger-symbol-o",
            "aiger-symbol-l",
            "aiger-symbol-b",
            "aiger-symbol-c",
            "aiger-symbol-j",
            "aiger-symbol-f",
            "aiger-multi-line-comment",
            "aiger-string-over-16k",
            "aiger-justice-section",
            "aiger-fairness-section",
            "btor2-const-b",
            "btor2-const-d",
            "btor2-const-h",
            "btor2-justice",
            "btor2-slice",
            "btor2-sort-array",
        ] {
            v.push(format!("forward/feature/{f}"));
        }
        for n in crate::btor::BINARY_NAMES {
            v.push(format!("forward/feature/btor2-{n}"));
        }
        for n in crate::btor::UNARY_PLAIN_NAMES {
            v.push(format!("forward/feature/btor2-{n}"));
        }
        v.push("forward-huge-binary/feature/aiger-delta-9+-bytes".into());
    }
    v
}

/// Properties with scale oracles that also run in one extra shard built without optimisation
/// (profile `unopt`), where recursion is not turned into loops and frames are large.
pub fn has_unopt_shard(id: &str) -> bool {
    matches!(id, "C05" | "C07" | "C16")
}

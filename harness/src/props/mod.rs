//! Registry of property checks.
use serde_json::Value;

use crate::engine::{CheckResult, Ctx, Tier};

pub mod c01;
pub mod c02;
pub mod c05;
pub mod c11;
pub mod c13;
pub mod c14;
pub mod c15;
pub mod c16;

pub struct PropDef {
    pub id: &'static str,
    pub level: &'static str,
    /// Build profiles the shards are distributed over (round robin).
    pub profiles: &'static [&'static str],
    /// A worker that dies (abort, signal, CPU watchdog) is a violation of this property; for the
    /// others it only makes the run inconclusive.
    pub abort_is_violation: bool,
    pub rule: &'static str,
    pub assumptions: &'static [&'static str],
    pub exhaustive: fn(Tier) -> bool,
    pub run: fn(&Ctx),
    /// Re-executes one serialised case; `None` when the oracle name is unknown.
    pub replay: fn(&str, &Value) -> Option<CheckResult>,
}

pub fn all() -> Vec<PropDef> {
    vec![c01::def(), c02::def(), c05::def(), c11::def(), c13::def(), c14::def(), c15::def(), c16::def()]
}

pub fn find(id: &str) -> Option<PropDef> {
    all().into_iter().find(|p| p.id == id)
}

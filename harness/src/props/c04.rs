//! C04 — a failing source is always reported as an I/O error.
use std::rc::Rc;

use proptest::prelude::*;
use serde::{Deserialize, Serialize};
use serde_json::Value;

use super::PropDef;
use crate::drivers::{self, Final};
use crate::engine::{replay_from_file, show_bytes, CheckResult, Ctx, Failure, Obs};
use crate::fail;
use crate::inputs::{input_strategy, Input};
use crate::source::{errkind_strategy, ErrKind, Feed, FAULT_MSG};

pub fn def() -> PropDef {
    PropDef {
        id: "C04",
        level: "fault_enumeration",
        profiles: &["checked", "fast"],
        abort_is_violation: false,
        rule: "for each generated (parser, literal type, config, input (valid, layout-rendered, crate-written, \
               mutated, fixtures, arbitrary; <= 400 bytes), feed, error kind) EVERY fault offset k in 0..=len is \
               enumerated for inputs up to 256 bytes (64 evenly spread offsets above): the source delivers the \
               first k bytes under the generated chunking and then fails with a non-Interrupted error. Oracle \
               against the fault-free run R of the same feed: the items handed out are a prefix of R's items; if \
               the error was actually returned to the reader the final result is that I/O error (same kind and \
               message) - never a clean end, never a syntax error; if the parser stopped before ever requesting \
               it, the run equals R. evaluations counts (input, k) pairs. Non-trivial: 0 < k < len and the error \
               was delivered; distinct by hash of the case (an input with all its offsets counts once).",
        assumptions: &[
            "the fault-free run of the same parser is the reference for the items (C01/C06 decide whether those are right)",
        ],
        exhaustive: |_| false,
        run,
        replay,
    }
}

#[derive(Serialize, Deserialize, Clone, Debug, PartialEq, Eq, Hash)]
pub struct Case {
    pub input: Input,
    pub feed: Feed,
    pub kind: ErrKind,
}

fn position_class(b: &[u8], k: usize) -> &'static str {
    if k == 0 {
        return "at-start";
    }
    if k >= b.len() {
        return "at-end";
    }
    let line_start = b[..k].iter().rposition(|&c| c == b'\n').map_or(0, |i| i + 1);
    let first = b[line_start];
    if b[k - 1] == b'\n' {
        return "after-newline";
    }
    if line_start == 0 {
        return "in-first-line";
    }
    if first == b'c' || first == b';' || b[line_start..k].contains(&b';') {
        return "in-comment";
    }
    if b[k - 1].is_ascii_digit() && b[k].is_ascii_digit() {
        return "inside-number";
    }
    if b[k] == b'\n' {
        return "before-newline";
    }
    "between-tokens"
}

pub fn check(c: &Case, obs: &mut Obs) -> CheckResult {
    let data = Rc::new(c.input.bytes.clone());
    let spec = c.input.spec;
    let n = data.len();
    let mut base = c.feed.clone();
    base.sched.fail_at = None;
    let (r, _) = drivers::run(&spec, data.clone(), &base, None, true);
    obs.class(format!("parser/{}", spec.parser.name()));
    obs.class(format!("input/{}", c.input.class));
    obs.class(format!("sched/{}", c.feed.sched.class()));
    let offsets: Vec<usize> = if n <= 256 {
        (0..=n).collect()
    } else {
        (0..=64).map(|i| i * n / 64).collect()
    };
    let p = spec.parser.name();
    let mut nontrivial = false;
    let sniffed = n % 4 == 1;
    obs.class_if(sniffed, "reader-looked-ahead-past-the-end-before-parsing");
    for &k in &offsets {
        let mut feed = c.feed.clone();
        feed.sched.fail_at = Some((k, c.kind));
        // a glitch (end of input afterwards) at even offsets, a dead source (the error again) at odd ones
        feed.sched.sticky = k % 2 == 1;
        feed.sched.wrapped = k % 8 >= 6;
        // one input in four: the caller looked ahead past the end of the input before the parser got
        // the reader (so the parser starts on a reader that already met the failure)
        let (f, log) = if sniffed {
            drivers::run_sniffed(&spec, data.clone(), &feed, n + 7, true)
        } else {
            drivers::run(&spec, data.clone(), &feed, None, true)
        };
        let delivered_error = log.terminal_returned && log.terminal_was_error;
        let describe = || {
            format!(
                "{} on {:?}, source fails with {:?} after {} of {} bytes ({}), chunk {:?}, schedule {}, {}",
                spec.describe(),
                show_bytes(&data),
                c.kind,
                k,
                n,
                position_class(&data, k),
                feed.chunk,
                feed.sched.class(),
                feed.ctor.class()
            )
        };
        // (1) items are a prefix of the fault-free items
        if f.items.len() > r.items.len() || f.items[..] != r.items[..f.items.len()] {
            let i = f
                .items
                .iter()
                .zip(r.items.iter())
                .position(|(a, b)| a != b)
                .unwrap_or(r.items.len());
            fail!(
                format!("C04:{p}:items-not-prefix"),
                "{}: item {} handed out before the error is {:?}, the fault-free run returns {:?}",
                describe(),
                i,
                f.items.get(i),
                r.items.get(i)
            );
        }
        if delivered_error {
            if k > 0 && k < n {
                nontrivial = true;
                obs.class(format!("fault/{}", position_class(&data, k)));
            }
            match &f.fin {
                Final::Io { kind, msg } => {
                    if *kind != format!("{:?}", c.kind.kind()) || !msg.contains(FAULT_MSG) || !msg.contains(crate::source::OWN_VALUE_TAG) {
                        fail!(
                            format!("C04:{p}:wrong-io-error"),
                            "{}: reported I/O error {kind}: {msg} is not the error value the source returned (kind, text and payload are compared)",
                            describe()
                        );
                    }
                }
                Final::Panic { .. } => {
                    // C05's business, but only if the fault-free run panics as well
                    if !matches!(r.fin, Final::Panic { .. }) {
                        fail!(
                            format!("C04:{p}:panic-after-fault"),
                            "{}: the parser panicked ({}) instead of reporting the I/O error",
                            describe(),
                            f.fin.short()
                        );
                    }
                }
                other => {
                    let what = if matches!(other, Final::End) { "clean-end" } else { "syntax-error" };
                    fail!(
                        format!("C04:{p}:final-{what}"),
                        "{}: the source's error was handed to the reader but the final result is [{}] after {} item(s) (fault-free: [{}], {} items)",
                        describe(),
                        other.short(),
                        f.items.len(),
                        r.fin.short(),
                        r.items.len()
                    );
                }
            }
        } else {
            // (3) the parser never looked at or past offset k: identical to the fault-free run
            if f.items != r.items || f.fin != r.fin {
                fail!(
                    format!("C04:{p}:differs-without-fault"),
                    "{}: the error was never requested, yet the run differs from the fault-free run: [{}] vs [{}]",
                    describe(),
                    f.fin.short(),
                    r.fin.short()
                );
            }
            obs.class("fault/never-requested");
        }
    }
    obs.extra_evals = offsets.len() as u64 - 1;
    if nontrivial {
        obs.nontrivial();
    }
    Ok(())
}

fn run(ctx: &Ctx) {
    let n = ctx.share(ctx.tier.pick(80_000, 4_000_000));
    let strat = (input_strategy(6, false), crate::source::parser_feed_strategy(), errkind_strategy())
        .prop_filter_map("input too long", |(input, feed, kind)| {
            if input.bytes.len() > 400 {
                None
            } else {
                Some(Case { input, feed, kind })
            }
        });
    ctx.run_cases("fault-offsets", n, strat, check);
}

fn replay(oracle: &str, v: &Value) -> Option<CheckResult> {
    match oracle {
        "fault-offsets" => Some(match replay_from_file::<Case>(v) {
            Ok(c) => check(&c, &mut Obs::default()),
            Err(e) => Err(Failure::new("C04:decode", e)),
        }),
        _ => None,
    }
}

//! C03 — writing a value and parsing it back is the identity, for every format.
use std::rc::Rc;

use proptest::prelude::*;
use serde::{Deserialize, Serialize};
use serde_json::Value;

use super::PropDef;
use crate::btor::BLine;
use crate::drivers::{self, AigOwned, Final, Item, ParserId, Spec, Trace};
use crate::engine::{replay_from_file, show_bytes, CheckResult, Ctx, Failure, Obs};
use crate::fail;
use crate::gen::{aiger_max_code, dimacs_max, doc_strategy, AigDoc, DimacsDoc, Doc};
use crate::inputs::{input_for_spec, write_aiger_with_crate, write_with_crate, AigWriter, Input};
use crate::source::Feed;

pub fn def() -> PropDef {
    PropDef {
        id: "C03",
        level: "exploration",
        profiles: &["checked", "fast"],
        abort_is_violation: false,
        rule: "forward: generated abstract values of every writer's domain (DIMACS cnf/wcnf/gcnf for i8..isize with \
               type-extreme literals, empty clauses, consistent / zero / (with ignore_header) arbitrary headers; \
               AIGER for u8..usize with arbitrary numbering, all latch reset forms, 0..n of every section, all \
               symbol kinds, UTF-8 names and comments, through ascii::write_aig, ascii::write_ordered_aig and \
               binary::write_ordered_aig, incl. input counts up to 2^62 for 9-10 byte delta codes; BTOR2 lines built \
               through the public constructors with every operator and constant form) are written with the crate's \
               writer and parsed back (streaming and collecting APIs, one-shot and re-chunked): items must equal the \
               value and the parse must end cleanly. Converse: every text of the C01 generators that a parser \
               accepts is re-written from the parsed value and parsed again: same value. Non-trivial: the value \
               has >= 1 entry and at least one tracked extreme feature (see classes). Distinct by hash.",
        assumptions: &[
            "the stated domain: DIMACS literals non-zero with |l| <= MAX_DIMACS; AIGER M <= (MAX_CODE-1)/2, I+L+A <= M, literals <= 2M+1, defined literals even, non-zero and distinct; binary gate inputs below the gate's code (compared modulo the documented larger-input-first normalisation); BTOR2 symbols non-empty without SP/LF and not starting with ';', comments without LF",
        ],
        exhaustive: |_| false,
        run,
        replay,
    }
}

#[derive(Serialize, Deserialize, Clone, Debug, PartialEq, Eq, Hash)]
pub struct Forward {
    pub spec: Spec,
    pub doc: Doc,
    pub feed: Option<Feed>,
    /// For AIGER: which of the crate's writers.
    pub writer: Option<AigWriter>,
}

fn parse(spec: &Spec, bytes: &[u8], feed: &Option<Feed>) -> Trace {
    let data = Rc::new(bytes.to_vec());
    let feed = feed.clone().unwrap_or_else(Feed::one_shot);
    drivers::run(spec, data, &feed, None, true).0
}

fn features_dimacs(d: &DimacsDoc, lit: u8, obs: &mut Obs) -> bool {
    let max = dimacs_max(lit);
    let mut any = false;
    let f = |c: bool, name: &str, obs: &mut Obs| {
        if c {
            obs.class(format!("feature/{name}"));
        }
        c
    };
    any |= f(d.clauses.iter().any(|(_, l)| l.iter().any(|&x| x == max)), "dimacs-literal-max", obs);
    any |= f(d.clauses.iter().any(|(_, l)| l.iter().any(|&x| x == -max)), "dimacs-literal-min", obs);
    any |= f(d.clauses.iter().any(|(_, l)| l.is_empty()), "dimacs-empty-clause", obs);
    any |= f(matches!(d.header, Some((0, _, _)) | Some((_, 0, _))), "dimacs-zero-header-field", obs);
    any |= f(d.header.is_none() && !d.clauses.is_empty(), "dimacs-no-header", obs);
    any |= f(d.kind != ParserId::Cnf && d.clauses.iter().any(|(x, _)| *x == u64::MAX), "dimacs-weight-max", obs);
    any |= f(
        d.clauses.iter().any(|(_, l)| l.iter().any(|x| x.unsigned_abs() >= 10_000_000)),
        "dimacs-literal-8+-digits",
        obs,
    );
    any && !d.clauses.is_empty()
}

fn features_aiger(d: &AigDoc, obs: &mut Obs) -> bool {
    let a = &d.aig;
    let mut any = false;
    let f = |c: bool, name: &str, obs: &mut Obs| {
        if c {
            obs.class(format!("feature/{name}"));
        }
        c
    };
    any |= f(d.min_header_fields() < 9, "aiger-trailing-zero-header-fields-dropped", obs);
    any |= f(a.latches.iter().any(|l| l.2 == Some(true)), "aiger-latch-reset-1", obs);
    any |= f(a.latches.iter().any(|l| l.2 == Some(false)), "aiger-latch-reset-0", obs);
    any |= f(a.latches.iter().any(|l| l.2.is_none()), "aiger-latch-uninitialised", obs);
    for k in ['i', 'o', 'l', 'b', 'c', 'j', 'f'] {
        any |= f(a.symbols.iter().any(|s| s.0 == k), &format!("aiger-symbol-{k}"), obs);
    }
    any |= f(a.comment.as_deref().map_or(false, |c| c.contains('\n')), "aiger-multi-line-comment", obs);
    any |= f(a.comment.as_deref() == Some(""), "aiger-empty-comment", obs);
    any |= f(
        a.comment.as_deref().map_or(false, |c| c.len() >= 16384) || a.symbols.iter().any(|s| s.2.len() >= 16384),
        "aiger-string-over-16k",
        obs,
    );
    any |= f(!a.bad.is_empty() || !a.constraints.is_empty(), "aiger-bad-or-constraint-section", obs);
    any |= f(!a.justice.is_empty(), "aiger-justice-section", obs);
    any |= f(!a.fairness.is_empty(), "aiger-fairness-section", obs);
    any |= f(a.justice.iter().any(|j| j.is_empty()), "aiger-empty-justice-property", obs);
    if d.binary {
        let mut code = (a.input_count + a.latches.len() as u64 + 1).wrapping_mul(2);
        for g in &a.ands {
            let hi = g.1.max(g.2);
            let d0 = code.wrapping_sub(hi);
            any |= f(d0 >= 1 << 14, "aiger-delta-3+-bytes", obs);
            any |= f(d0 >= 1 << 56, "aiger-delta-9+-bytes", obs);
            code = code.wrapping_add(2);
        }
    }
    any && (a.latches.len() + a.outputs.len() + a.ands.len() + a.symbols.len() + a.bad.len() > 0)
}

fn features_btor(lines: &[BLine], obs: &mut Obs) -> bool {
    use crate::btor::{BVar, BINARY_NAMES, UNARY_PLAIN_NAMES};
    for l in lines {
        if let BLine::Node { var, symbol, comment, .. } = l {
            let name = match var {
                BVar::SortBitvec(_) => "sort-bitvec".to_string(),
                BVar::SortArray(..) => "sort-array".to_string(),
                BVar::ConstText { kind, .. } => format!("const-{kind}"),
                BVar::ConstSimple { kind, .. } => kind.clone(),
                BVar::Input(_) => "input".into(),
                BVar::State(_) => "state".into(),
                BVar::Unary { op, .. } => UNARY_PLAIN_NAMES[*op % 7].into(),
                BVar::Ext { signed, .. } => if *signed { "sext" } else { "uext" }.into(),
                BVar::Slice { .. } => "slice".into(),
                BVar::Binary { op, .. } => BINARY_NAMES[*op % 40].into(),
                BVar::Ternary { write, .. } => if *write { "write" } else { "ite" }.into(),
                BVar::Assign { next, .. } => if *next { "next" } else { "init" }.into(),
                BVar::Output { kind, .. } => kind.clone(),
                BVar::Justice(_) => "justice".into(),
            };
            obs.class(format!("feature/btor2-{name}"));
            obs.class_if(symbol.is_some(), "feature/btor2-symbol");
            obs.class_if(comment.is_some(), "feature/btor2-trailing-comment");
        } else {
            obs.class("feature/btor2-comment-line");
        }
    }
    !lines.is_empty()
}

fn compare(what: &str, spec: &Spec, want: &[Item], t: &Trace, bytes: &[u8]) -> CheckResult {
    let p = spec.parser.name();
    if t.fin != Final::End {
        fail!(
            format!("C03:{p}:{what}:rejected"),
            "{}: the text written by the crate's own writer is not accepted: {}; written text {:?}",
            spec.describe(),
            t.fin.short(),
            show_bytes(bytes)
        );
    }
    if t.items != want {
        let i = t
            .items
            .iter()
            .zip(want.iter())
            .position(|(a, b)| a != b)
            .unwrap_or(t.items.len().min(want.len()));
        fail!(
            format!("C03:{p}:{what}:value"),
            "{}: item {} parsed back as {:?}, written value was {:?} ({} vs {} items); written text {:?}",
            spec.describe(),
            i,
            t.items.get(i),
            want.get(i),
            t.items.len(),
            want.len(),
            show_bytes(bytes)
        );
    }
    Ok(())
}

pub fn check_forward(c: &Forward, obs: &mut Obs) -> CheckResult {
    let spec = c.spec;
    obs.class(format!("parser/{}", spec.parser.name()));
    obs.class(format!("lit/{}", spec.lit_name()));
    match &c.doc {
        Doc::Dimacs(d) => {
            if features_dimacs(d, spec.lit, obs) {
                obs.nontrivial();
            }
            let bytes = d.write_with_crate(spec.lit);
            let t = parse(&spec, &bytes, &c.feed);
            compare("forward", &spec, &d.expected(), &t, &bytes)
        }
        Doc::Aiger(d) => {
            if features_aiger(d, obs) {
                obs.nontrivial();
            }
            let writer = c.writer.unwrap_or(if d.binary { AigWriter::BinaryOrdered } else { AigWriter::AsciiAig });
            obs.class(format!("writer/{writer:?}"));
            let bytes = match std::panic::catch_unwind(std::panic::AssertUnwindSafe(|| {
                write_aiger_with_crate(&d.aig, spec.lit, writer)
            })) {
                Ok(b) => b,
                Err(p) => fail!(
                    format!("C03:{}:writer-panic", spec.parser.name()),
                    "{}: the crate's {:?} writer panicked on a value of its domain: {}; value {:?}",
                    spec.describe(),
                    writer,
                    crate::engine::panic_message(&p),
                    d.aig
                ),
            };
            let (pspec, want_doc) = match writer {
                AigWriter::AsciiAig => (spec, d.clone()),
                AigWriter::AsciiOrdered => (
                    spec,
                    AigDoc {
                        binary: false,
                        aig: drivers::ordered_to_plain(&d.aig),
                        header_fields: d.header_fields,
                    },
                ),
                AigWriter::BinaryOrdered => (spec, d.clone()),
            };
            let t = parse(&pspec, &bytes, &c.feed);
            let want = Doc::Aiger(want_doc).expected(&pspec);
            compare("forward", &pspec, &want, &t, &bytes)
        }
        Doc::Btor(lines) => {
            if features_btor(lines, obs) {
                obs.nontrivial();
            }
            let bytes = match write_with_crate(&c.doc, &spec) {
                Some(b) => b,
                None => {
                    // not constructible through the public constructors: outside the domain
                    obs.class("btor2-constructor-rejected-candidate");
                    obs.nontrivial = false;
                    return Ok(());
                }
            };
            // Display of a line is its unterminated written form
            for l in lines {
                let mut raw = Vec::new();
                {
                    let mut w = flussab::DeferredWriter::from_write(&mut raw);
                    if l.write_with_crate(&mut w, false).is_err() {
                        continue;
                    }
                    let _ = std::io::Write::flush(&mut w);
                }
                if let Ok(shown) = l.display_with_crate() {
                    if shown != String::from_utf8_lossy(&raw) {
                        fail!(
                            "C03:btor2:display",
                            "Display of a line gives {:?} but write_into_unterminated writes {:?}",
                            shown,
                            show_bytes(&raw)
                        );
                    }
                }
            }
            let t = parse(&spec, &bytes, &c.feed);
            compare("forward", &spec, &c.doc.expected(&spec), &t, &bytes)
        }
        Doc::Log(_) => Ok(()),
    }
}

// ---- converse direction ----

fn items_to_doc(spec: &Spec, items: &[Item]) -> Option<Doc> {
    match spec.parser {
        ParserId::Cnf | ParserId::Wcnf | ParserId::Gcnf => {
            let mut header = None;
            let mut clauses = vec![];
            for it in items {
                match it {
                    Item::Header(h) => header = Some((h[0], h[1], h.get(2).copied().unwrap_or(0))),
                    Item::Clause { extra, lits } => clauses.push((extra.unwrap_or(0), lits.clone())),
                    _ => return None,
                }
            }
            Some(Doc::Dimacs(DimacsDoc {
                kind: spec.parser,
                header,
                clauses,
            }))
        }
        ParserId::AagParse | ParserId::AigParse => match items {
            [Item::Aig(a)] => Some(Doc::Aiger(AigDoc {
                binary: spec.parser == ParserId::AigParse,
                aig: (**a).clone(),
                header_fields: 9,
            })),
            _ => None,
        },
        ParserId::Btor2 => {
            let mut lines = vec![];
            for it in items {
                match it {
                    Item::Btor(l) => lines.push(l.clone()),
                    _ => return None,
                }
            }
            Some(Doc::Btor(lines))
        }
        _ => None,
    }
}

pub fn check_converse(input: &Input, obs: &mut Obs) -> CheckResult {
    let spec = input.spec;
    let t1 = parse(&spec, &input.bytes, &None);
    obs.class(format!("converse/{}", spec.parser.name()));
    if t1.fin != Final::End {
        obs.class("converse/not-accepted");
        return Ok(());
    }
    let Some(doc) = items_to_doc(&spec, &t1.items) else {
        return Ok(());
    };
    let Some(bytes) = write_with_crate(&doc, &spec) else {
        return Ok(());
    };
    obs.class("converse/accepted");
    if t1.items.len() >= 2 || matches!(t1.items.first(), Some(Item::Aig(_))) {
        obs.nontrivial();
    }
    let t2 = parse(&spec, &bytes, &None);
    let p = spec.parser.name();
    if t2.fin != Final::End || t2.items != t1.items {
        fail!(
            format!("C03:{p}:converse"),
            "{}: parse(write(parse(t))) != parse(t): t = {:?} parsed to {} item(s), rewritten as {:?} which gives [{}] with {} item(s); first parse {:?}, second {:?}",
            spec.describe(),
            show_bytes(&input.bytes),
            t1.items.len(),
            show_bytes(&bytes),
            t2.fin.short(),
            t2.items.len(),
            t1.items.iter().take(4).collect::<Vec<_>>(),
            t2.items.iter().take(4).collect::<Vec<_>>()
        );
    }
    Ok(())
}

fn forward_strategy() -> impl Strategy<Value = Forward> {
    let parsers = vec![
        ParserId::Cnf,
        ParserId::Wcnf,
        ParserId::Gcnf,
        ParserId::Aag,
        ParserId::AagParse,
        ParserId::Aig,
        ParserId::AigParse,
        ParserId::Btor2,
    ];
    (proptest::sample::select(parsers), 0u8..5, any::<bool>())
        .prop_flat_map(|(parser, lit, flag)| {
            let spec = Spec {
                parser,
                lit,
                flag: flag && Spec::flag_applies(parser),
            };
            (
                Just(spec),
                doc_strategy(spec, 10),
                proptest::option::weighted(0.5, crate::source::parser_feed_strategy()),
                any::<u8>(),
                any::<u64>(),
            )
        })
        .prop_map(|(spec, mut doc, feed, w, junk)| {
            let mut writer = None;
            // occasionally a string at least as long as the writer's 16 KiB buffer (it is written
            // with a single call, which takes the writer's write-through path)
            if junk % 37 == 0 {
                let n = [16383usize, 16384, 16385, 20000, 50000][(junk / 37 % 5) as usize];
                // ASCII, or multi-byte characters throughout (behind a short ASCII prefix, so that any
                // fixed byte boundary falls inside a character for some cases)
                let big: String = match junk / 370 % 3 {
                    0 => (0..n).map(|k| (b'a' + ((k as u64 * 7 + junk) % 26) as u8) as char).collect(),
                    1 => "abc"[..(junk / 1110 % 4).min(3) as usize].chars().chain(std::iter::repeat('\u{fc}').take(n / 2)).collect(),
                    _ => "ab"[..(junk / 1110 % 3).min(2) as usize].chars().chain(std::iter::repeat('\u{2192}').take(n / 3)).collect(),
                };
                match &mut doc {
                    Doc::Aiger(d) => {
                        if junk / 185 % 2 == 0 || d.aig.symbols.is_empty() {
                            d.aig.comment = Some(big);
                        } else {
                            d.aig.symbols[0].2 = big;
                        }
                    }
                    Doc::Btor(lines) => {
                        if let Some(crate::btor::BLine::Node { comment, symbol, .. }) = lines.first_mut() {
                            if junk / 185 % 3 == 2 {
                                // symbol and comment each below the buffer size, together above it
                                let cut = (0..=big.len() / 2).rev().find(|&i| big.is_char_boundary(i)).unwrap_or(0);
                                *symbol = Some(crate::btor::HexBytes(big.as_bytes()[..cut].to_vec()));
                                *comment = Some(crate::btor::HexBytes(big.as_bytes()[cut..].to_vec()));
                            } else if junk / 185 % 2 == 0 {
                                *comment = Some(crate::btor::HexBytes(big.into_bytes()));
                            } else {
                                *symbol = Some(crate::btor::HexBytes(big.into_bytes()));
                            }
                        }
                    }
                    _ => {}
                }
            }
            match &mut doc {
                Doc::Dimacs(d) => {
                    // with ignore_header the header may declare anything
                    if spec.flag {
                        if let Some(h) = &mut d.header {
                            let max = dimacs_max(spec.lit) as u64;
                            h.0 = junk % (max + 1);
                            h.1 = junk >> 7;
                            if d.kind == ParserId::Gcnf {
                                h.2 = junk >> 3;
                            }
                        }
                    }
                }
                Doc::Aiger(d) => {
                    writer = Some(if d.binary {
                        if w % 2 == 0 { AigWriter::BinaryOrdered } else { AigWriter::AsciiOrdered }
                    } else {
                        AigWriter::AsciiAig
                    });
                }
                _ => {}
            }
            // an ordered AIG written as ASCII is parsed by the ASCII parser
            let spec = match (writer, spec.parser) {
                (Some(AigWriter::AsciiOrdered), ParserId::Aig) => Spec { parser: ParserId::Aag, ..spec },
                (Some(AigWriter::AsciiOrdered), ParserId::AigParse) => Spec { parser: ParserId::AagParse, ..spec },
                _ => spec,
            };
            Forward { spec, doc, feed, writer }
        })
}

/// Binary AIGER with a huge input count: reaches 9- and 10-byte delta codes without materialising
/// anything.
fn huge_binary_strategy() -> impl Strategy<Value = Forward> {
    (
        prop_oneof![Just(3u8), Just(4u8)],
        prop_oneof![
            Just(1u64 << 55),
            Just((1u64 << 55) - 2),
            Just(1u64 << 61),
            Just((1u64 << 62) - 3),
            (1u64 << 40)..(1u64 << 62)
        ],
        proptest::collection::vec((any::<u64>(), any::<u64>()), 0..3),
        any::<bool>(),
    )
        .prop_map(|(lit, inputs, gates, parse_api)| {
            let max_m = (aiger_max_code(lit) - 1) / 2;
            let l = 1u64;
            let a = gates.len() as u64;
            // one case in four sits exactly at the type's limit: I + L + A = (MAX_CODE - 1) / 2
            let inputs = if inputs % 4 == 1 { max_m - l - a } else { inputs };
            let m = (inputs + l + a).min(max_m);
            let mut ands = vec![];
            // (with no gates the first gate code may not even be representable)
            let mut code = (inputs + l + 1).wrapping_mul(2);
            for (x, y) in gates {
                let i0 = x % code;
                let i1 = y % (i0 + 1);
                ands.push((None, i0, i1));
                code = code.wrapping_add(2);
            }
            let aig = AigOwned {
                max_var_index: m,
                inputs: vec![],
                input_count: inputs,
                latches: vec![(None, 3, None)],
                outputs: vec![2 * inputs, 1],
                ands,
                ..AigOwned::default()
            };
            Forward {
                spec: Spec {
                    parser: if parse_api { ParserId::AigParse } else { ParserId::Aig },
                    lit,
                    flag: false,
                },
                doc: Doc::Aiger(AigDoc {
                    binary: true,
                    aig,
                    header_fields: 5,
                }),
                feed: None,
                writer: Some(AigWriter::BinaryOrdered),
            }
        })
}

// ---------------------------------------------------------------------------------------------
// The same document written at a chosen distance from the end of the writer's buffer

#[derive(Serialize, Deserialize, Clone, Debug, PartialEq, Eq, Hash)]
pub struct AtEnd {
    pub fwd: Forward,
    /// Selects the token (a position behind a blank or line end; any byte in binary sections).
    pub pick: u16,
    /// Bytes left in the 16 KiB buffer when that token is written.
    pub free: u8,
}

fn write_forward(c: &Forward) -> Option<Vec<u8>> {
    match &c.doc {
        Doc::Dimacs(d) => Some(d.write_with_crate(c.spec.lit)),
        Doc::Aiger(d) => {
            let writer = c.writer.unwrap_or(if d.binary { AigWriter::BinaryOrdered } else { AigWriter::AsciiAig });
            Some(write_aiger_with_crate(&d.aig, c.spec.lit, writer))
        }
        other => write_with_crate(other, &c.spec),
    }
}

/// Writing is a pure function of the value: placing the document's bytes anywhere relative to the
/// buffer end (here: a chosen token `free` bytes in front of it) must not change them, and must
/// not trip the writer's own debug assertions or the sanitizer.
pub fn check_at_buffer_end(c: &AtEnd, obs: &mut Obs) -> CheckResult {
    const CAP: usize = 16 << 10;
    let p = c.fwd.spec.parser.name();
    let base = match std::panic::catch_unwind(std::panic::AssertUnwindSafe(|| write_forward(&c.fwd))) {
        Ok(Some(b)) => b,
        Ok(None) => return Ok(()),
        Err(_) => return Ok(()), // outside the writer's domain; `forward` reports writer panics
    };
    if base.is_empty() {
        return Ok(());
    }
    let binary = base.starts_with(b"aig ");
    let starts: Vec<usize> = (0..base.len())
        .filter(|&i| i == 0 || matches!(base[i - 1], b' ' | b'\n') || (binary && i > base.iter().position(|&b| b == b'\n').unwrap_or(0)))
        .collect();
    let t = starts[(c.pick as usize * starts.len()) >> 16];
    let pad = (2 * CAP - c.free as usize - (t % CAP)) % CAP;
    obs.class(format!("parser/{p}"));
    obs.class(format!("free/{}", match c.free { 0 => "0", 1..=8 => "1-8", 9..=11 => "9-11", 12..=19 => "12-19", 20..=22 => "20-22", _ => ">22" }));
    obs.nontrivial();
    let padded = std::panic::catch_unwind(std::panic::AssertUnwindSafe(|| crate::inputs::with_write_pad(pad, || write_forward(&c.fwd))));
    match padded {
        Ok(Some(b)) if b == base => Ok(()),
        Ok(Some(b)) => {
            let at = b.iter().zip(base.iter()).position(|(x, y)| x != y).unwrap_or(b.len().min(base.len()));
            fail!(
                format!("C03:{p}:at-buffer-end:differs"),
                "{}: with byte {} of the document {} bytes in front of the end of the writer's buffer the written text differs from byte {} on ({} vs {} bytes); document {:?}",
                c.fwd.spec.describe(),
                t,
                c.free,
                at,
                b.len(),
                base.len(),
                show_bytes(&base)
            )
        }
        Ok(None) => Ok(()),
        Err(e) => fail!(
            format!("C03:{p}:at-buffer-end:panic"),
            "{}: with byte {} of the document {} bytes in front of the end of the writer's buffer the writer panicked: {}; document {:?}",
            c.fwd.spec.describe(),
            t,
            c.free,
            crate::engine::panic_message(&e),
            show_bytes(&base)
        ),
    }
}

/// Two AIGER documents through one writer object: the second must come out as if written alone.
#[derive(Serialize, Deserialize, Clone, Debug, PartialEq, Eq, Hash)]
pub struct Reuse {
    pub first: Forward,
    pub second: Forward,
}

pub fn check_reuse(c: &Reuse, obs: &mut Obs) -> CheckResult {
    let (Doc::Aiger(a), Doc::Aiger(b)) = (&c.first.doc, &c.second.doc) else { return Ok(()) };
    let lit = c.first.spec.lit;
    let writer = c.first.writer.unwrap_or(if a.binary { AigWriter::BinaryOrdered } else { AigWriter::AsciiAig });
    // the second document in the form the chosen writer takes
    let (aa, bb) = match writer {
        AigWriter::AsciiAig => (a.aig.clone(), if b.binary { drivers::ordered_to_plain(&b.aig) } else { b.aig.clone() }),
        _ => {
            if !a.binary || !b.binary {
                return Ok(());
            }
            (a.aig.clone(), b.aig.clone())
        }
    };
    // (the second document has to fit the first one's literal type)
    let max_code = aiger_max_code(lit);
    if 2 * bb.max_var_index as u128 + 1 > max_code as u128 {
        return Ok(());
    }
    obs.class(format!("writer/{writer:?}"));
    obs.nontrivial();
    let r = std::panic::catch_unwind(std::panic::AssertUnwindSafe(|| {
        (
            write_aiger_with_crate(&aa, lit, writer),
            write_aiger_with_crate(&bb, lit, writer),
            crate::inputs::write_aiger_pair_with_crate(&aa, &bb, lit, writer),
        )
    }));
    let Ok((one, two, both)) = r else { return Ok(()) }; // writer panics are reported by `forward`
    let mut want = one.clone();
    want.extend_from_slice(&two);
    if both != want {
        let at = both.iter().zip(want.iter()).position(|(x, y)| x != y).unwrap_or(both.len().min(want.len()));
        fail!(
            format!("C03:aiger:writer-reuse:{writer:?}"),
            "a second document written through the same {writer:?} writer differs from the same document written alone, from byte {} of the combined output on (first document {} bytes); second document alone {:?}",
            at,
            one.len(),
            show_bytes(&two)
        );
    }
    Ok(())
}

/// The writer is reused after a sink failure was reported: a first DIMACS document (behind 20 KB
/// of filler, so that the buffer is flushed implicitly on the way) meets a sink that fails at its
/// `fail_call`-th call; `flush()` reports the failure; a second document written afterwards must
/// reach the sink exactly as written alone ("any data written after an IO error occured, before
/// it is eventually reported, will be discarded").
#[derive(Serialize, Deserialize, Clone, Debug, PartialEq, Eq, Hash)]
pub struct AfterFailure {
    pub lit: u8,
    pub first: DimacsDoc,
    pub second: DimacsDoc,
    pub fail_call: u8,
    /// Bytes the sink accepts per call (0 = everything).
    pub accept: u32,
}

pub fn check_after_failure(c: &AfterFailure, obs: &mut Obs) -> CheckResult {
    use crate::writer_model::{Sink, SinkScript, SinkStep};
    let accept = if c.accept == 0 { u32::MAX } else { c.accept };
    let mut steps = vec![SinkStep::Accept(accept); c.fail_call as usize];
    steps.push(SinkStep::Fail(crate::source::ErrKind::BrokenPipe));
    let (sink, log) = Sink::new(SinkScript { steps, tail_accept: accept });
    let alone = c.second.write_with_crate(c.lit);
    let at_report;
    {
        let mut w = flussab::DeferredWriter::from_write(sink);
        w.write_all_defer_err(&vec![b'#'; 20_000]);
        c.first.write_into(&mut w, c.lit);
        let r = std::io::Write::flush(&mut w);
        let failed = log.borrow().failures > 0;
        obs.class(if failed { "sink-failed-during-first-document" } else { "sink-did-not-fail" });
        if failed != r.is_err() {
            fail!(
                "C03:dimacs:after-failure:report",
                "flush() returned {:?} although the sink {} during the first document",
                r.map_err(|e| e.to_string()),
                if failed { "failed" } else { "did not fail" }
            );
        }
        if !failed {
            return Ok(());
        }
        obs.nontrivial();
        log.borrow_mut().pending = false;
        at_report = log.borrow().received.len();
        c.second.write_into(&mut w, c.lit);
        if let Err(e) = std::io::Write::flush(&mut w) {
            fail!("C03:dimacs:after-failure:second-flush", "flush() after the second document returned {e} although the sink did not fail again");
        }
    }
    let l = log.borrow();
    if l.received[at_report..] != alone[..] {
        fail!(
            "C03:dimacs:after-failure:stale-data",
            "after a reported sink failure the second document reaches the sink as {} bytes, written alone it has {} bytes; sink after the report {:?}; document alone {:?}",
            l.received.len() - at_report,
            alone.len(),
            show_bytes(&l.received[at_report..]),
            show_bytes(&alone)
        );
    }
    Ok(())
}

pub fn at_end_strategy() -> impl Strategy<Value = AtEnd> {
    (
        prop_oneof![3 => forward_strategy().boxed(), 1 => huge_binary_strategy().boxed()],
        any::<u16>(),
        prop_oneof![3 => 0u8..=45, 1 => proptest::sample::select(vec![8u8, 9, 10, 11, 19, 20, 21, 39, 40])],
    )
        .prop_map(|(mut fwd, pick, free)| {
            // extreme numbers where the format has 64-bit fields
            if let Doc::Dimacs(d) = &mut fwd.doc {
                for (k, (x, _)) in d.clauses.iter_mut().enumerate() {
                    if (pick as usize + k) % 3 == 0 && d.kind != ParserId::Cnf {
                        *x = [u64::MAX, 10_000_000_000_000_000_000, u64::MAX - 1, 1 << 63][k % 4];
                    }
                }
            }
            AtEnd { fwd, pick, free }
        })
}

fn run(ctx: &Ctx) {
    let n = ctx.share(ctx.tier.pick(300_000, 12_000_000));
    ctx.run_cases("forward-at-buffer-end", n, at_end_strategy(), check_at_buffer_end);
    let n = ctx.share(ctx.tier.pick(120_000, 4_000_000));
    let aiger = || {
        (proptest::sample::select(vec![ParserId::Aag, ParserId::Aig]), 0u8..5, any::<u8>()).prop_flat_map(|(parser, lit, w)| {
            let spec = Spec { parser, lit, flag: false };
            doc_strategy(spec, 8).prop_map(move |doc| {
                let writer = match &doc {
                    Doc::Aiger(d) if d.binary => Some(if w % 2 == 0 { AigWriter::BinaryOrdered } else { AigWriter::AsciiOrdered }),
                    _ => Some(AigWriter::AsciiAig),
                };
                Forward { spec, doc, feed: None, writer }
            })
        })
    };
    let strat = (aiger(), aiger()).prop_map(|(first, mut second)| {
        second.spec.lit = first.spec.lit;
        Reuse { first, second }
    });
    ctx.run_cases("writer-reuse", n, strat, check_reuse);
    let n = ctx.share(ctx.tier.pick(60_000, 2_000_000));
    let dimacs = |lit: u8| {
        proptest::sample::select(vec![ParserId::Cnf, ParserId::Wcnf, ParserId::Gcnf]).prop_flat_map(move |parser| {
            doc_strategy(Spec { parser, lit, flag: false }, 8).prop_map(|d| match d {
                Doc::Dimacs(d) => d,
                _ => unreachable!(),
            })
        })
    };
    let strat = (0u8..5).prop_flat_map(move |lit| {
        (Just(lit), dimacs(lit), dimacs(lit), 0u8..4, prop_oneof![Just(0u32), Just(1000u32), Just(7u32)]).prop_map(
            |(lit, first, second, fail_call, accept)| AfterFailure { lit, first, second, fail_call, accept },
        )
    });
    ctx.run_cases("reuse-after-sink-failure", n, strat, check_after_failure);
    let n = ctx.share(ctx.tier.pick(800_000, 40_000_000));
    ctx.run_cases("forward", n, forward_strategy(), check_forward);
    // BTOR2 constants from candidate strings: whatever the validating constructors accept must
    // round-trip.
    let n = ctx.share(ctx.tier.pick(100_000, 4_000_000));
    let strat = proptest::collection::vec(crate::gen::bline_candidate_const_strategy(), 1..4).prop_map(|lines| Forward {
        spec: Spec {
            parser: ParserId::Btor2,
            lit: 0,
            flag: false,
        },
        doc: Doc::Btor(lines),
        feed: None,
        writer: None,
    });
    ctx.run_cases("forward-constructor-candidates", n, strat, check_forward);
    let n = ctx.share(ctx.tier.pick(40_000, 2_000_000));
    ctx.run_cases("forward-huge-binary", n, huge_binary_strategy(), check_forward);
    let n = ctx.share(ctx.tier.pick(500_000, 24_000_000));
    let parsers = vec![
        ParserId::Cnf,
        ParserId::Wcnf,
        ParserId::Gcnf,
        ParserId::AagParse,
        ParserId::AigParse,
        ParserId::Btor2,
    ];
    let strat = (proptest::sample::select(parsers), 0u8..5, any::<bool>()).prop_flat_map(|(parser, lit, flag)| {
        input_for_spec(
            Spec {
                parser,
                lit,
                flag: flag && parser.is_dimacs(),
            },
            8,
            false,
        )
    });
    ctx.run_cases("converse", n, strat, check_converse);
}

fn replay(oracle: &str, v: &Value) -> Option<CheckResult> {
    match oracle {
        "reuse-after-sink-failure" => Some(match replay_from_file::<AfterFailure>(v) {
            Ok(c) => check_after_failure(&c, &mut Obs::default()),
            Err(e) => Err(Failure::new("C03:decode", e)),
        }),
        "writer-reuse" => Some(match replay_from_file::<Reuse>(v) {
            Ok(c) => check_reuse(&c, &mut Obs::default()),
            Err(e) => Err(Failure::new("C03:decode", e)),
        }),
        "forward-at-buffer-end" => Some(match replay_from_file::<AtEnd>(v) {
            Ok(c) => check_at_buffer_end(&c, &mut Obs::default()),
            Err(e) => Err(Failure::new("C03:decode", e)),
        }),
        "forward" | "forward-huge-binary" | "forward-constructor-candidates" => Some(match replay_from_file::<Forward>(v) {
            Ok(c) => check_forward(&c, &mut Obs::default()),
            Err(e) => Err(Failure::new("C03:decode", e)),
        }),
        "converse" => Some(match replay_from_file::<Input>(v) {
            Ok(c) => check_converse(&c, &mut Obs::default()),
            Err(e) => Err(Failure::new("C03:decode", e)),
        }),
        _ => None,
    }
}

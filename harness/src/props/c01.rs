//! C01 — parse results do not depend on how the input bytes arrive.
use std::rc::Rc;

use proptest::prelude::*;
use serde::{Deserialize, Serialize};
use serde_json::Value;

use super::PropDef;
use crate::drivers::{self, Final, ParserId, Spec, Trace};
use crate::engine::{replay_from_file, show_bytes, CheckResult, Ctx, Failure, Obs};
use crate::fail;
use crate::gen::{dimacs_doc_strategy, render_dimacs, btor_doc_strategy, render_btor};
use crate::inputs::{input_strategy, Input};
use crate::source::{Ctor, Feed, Schedule};

pub fn def() -> PropDef {
    PropDef {
        id: "C01",
        level: "exploration",
        profiles: &["checked", "fast"],
        abort_is_violation: false,
        rule: "differential: every generated input (reference-rendered, layout-rendered, crate-written, mutated, \
               spliced, repo test fixtures, hostile headers and delta codes, arbitrary format-biased bytes) for a generated (parser, literal type, \
               config) is parsed twice: once delivered in a single read() (what the repository's tests do) and once \
               through a generated feed (read schedule incl. 1 byte per read and Interrupted, chunk size 1..64 / \
               4096 / default, constructor from_read / from_boxed_dyn_read / from_buf_reader). Items and the final \
               outcome (clean end, I/O, or syntax error with line, column and message) must be identical. \
               Non-trivial: the re-chunked run needed >= 3 data-returning reads, the input is longer than 3 chunks \
               (so the buffer was realigned) and at least one item or a syntax error was produced. A second \
               generator produces 20-120 KiB documents for the 1000/4096/16384-byte chunk sizes.",
        assumptions: &[
            "a panic that happens identically in both runs is C05's business and is not reported here",
            "the scheduled source in harness/src/source.rs delivers exactly the scheduled bytes",
        ],
        exhaustive: |_| false,
        run,
        replay,
    }
}

#[derive(Serialize, Deserialize, Clone, Debug, PartialEq, Eq, Hash)]
pub struct Case {
    pub input: Input,
    pub feed: Feed,
}

fn one_shot_feed(len: usize) -> Feed {
    Feed {
        sched: Schedule::whole(),
        chunk: if len >= (16 << 10) { Some(len + 1) } else { None },
        ctor: Ctor::FromRead,
        late_chunk: false,
    }
}

pub fn diff_traces(spec: &Spec, a: &Trace, b: &Trace, bytes: &[u8], feed: &Feed) -> CheckResult {
    let p = spec.parser.name();
    if a.items != b.items {
        let i = a
            .items
            .iter()
            .zip(b.items.iter())
            .position(|(x, y)| x != y)
            .unwrap_or(a.items.len().min(b.items.len()));
        fail!(
            format!("C01:{p}:items"),
            "{}: item {} differs: one-shot {:?} vs re-chunked {:?} ({} vs {} items); chunk {:?}, schedule {}, {}; input {:?}",
            spec.describe(),
            i,
            a.items.get(i),
            b.items.get(i),
            a.items.len(),
            b.items.len(),
            feed.chunk,
            feed.sched.class(),
            feed.ctor.class(),
            show_bytes(bytes)
        );
    }
    if a.fin != b.fin {
        let what = match (&a.fin, &b.fin) {
            (Final::Syntax { line: l1, col: c1, msg: m1 }, Final::Syntax { line: l2, col: c2, msg: m2 }) => {
                if m1 != m2 {
                    "final:message"
                } else if l1 != l2 {
                    "final:line"
                } else {
                    let _ = (c1, c2);
                    "final:column"
                }
            }
            (_, Final::Panic { .. }) | (Final::Panic { .. }, _) => "final:panic-in-one-run",
            _ => "final:kind",
        };
        fail!(
            format!("C01:{p}:{what}"),
            "{}: final outcome differs: one-shot [{}] vs re-chunked [{}]; chunk {:?}, schedule {}, {}; input {:?}",
            spec.describe(),
            a.fin.short(),
            b.fin.short(),
            feed.chunk,
            feed.sched.class(),
            feed.ctor.class(),
            show_bytes(bytes)
        );
    }
    Ok(())
}

pub fn check(c: &Case, obs: &mut Obs) -> CheckResult {
    let data = Rc::new(c.input.bytes.clone());
    let spec = c.input.spec;
    let (a, _) = drivers::run(&spec, data.clone(), &one_shot_feed(data.len()), None, true);
    let (b, lb) = drivers::run(&spec, data.clone(), &c.feed, None, true);
    obs.class(format!("parser/{}", spec.parser.name()));
    obs.class(format!("lit/{}", spec.lit_name()));
    obs.class(format!("input/{}", c.input.class));
    obs.class(format!("chunk/{}", c.feed.chunk_class()));
    obs.class(format!("sched/{}", c.feed.sched.class()));
    obs.class(format!("ctor/{}", c.feed.ctor.class()));
    obs.class(match &a.fin {
        Final::End => "outcome/clean-end",
        Final::Syntax { .. } => "outcome/syntax-error",
        Final::Io { .. } => "outcome/io-error",
        Final::Panic { .. } => "outcome/panic-in-both",
    });
    let chunk = c.feed.chunk_size();
    let realigned = data.len() > 3 * chunk && lb.data_reads >= 3;
    obs.class_if(realigned, "realign-forced");
    obs.class_if(chunk >= 16 && !matches!(c.feed.sched.class(), "whole"), "swar-and-bytewise-paths-mixed");
    if realigned && (!a.items.is_empty() || a.fin.is_syntax()) {
        obs.nontrivial();
    }
    diff_traces(&spec, &a, &b, &data, &c.feed)
}

pub fn large_case_strategy() -> impl Strategy<Value = Case> {
    // Long well-formed documents (optionally with one corruption near the end) so that the default
    // and the 4096-byte chunk sizes also realign.
    let cnf = (
        proptest::collection::vec(dimacs_doc_strategy(ParserId::Cnf, 2, 8), 60..120),
        any::<bool>(),
        0u8..5,
    )
        .prop_map(|(docs, corrupt, lit)| {
            let mut bytes = vec![];
            let mut reps = 0;
            while bytes.len() < 70_000 {
                for d in &docs {
                    let mut d = d.clone();
                    d.header = None;
                    bytes.extend_from_slice(&render_dimacs(&d, &[reps as u8, 3, 7, 1], reps % 2 == 1).bytes);
                    if bytes.last() != Some(&b'\n') {
                        bytes.push(b'\n');
                    }
                }
                reps += 1;
            }
            if corrupt {
                bytes.extend_from_slice(b"1 2 99999999999999999999 0\n");
            }
            Input {
                spec: Spec {
                    parser: ParserId::Cnf,
                    lit: 2 + lit % 3,
                    flag: false,
                },
                bytes,
                class: "large-cnf".into(),
            }
        });
    let btor = (btor_doc_strategy(40), any::<bool>()).prop_map(|(lines, corrupt)| {
        let mut bytes = vec![];
        let one = render_btor(&lines, &[], false).bytes;
        if !one.is_empty() {
            while bytes.len() < 50_000 {
                bytes.extend_from_slice(&one);
            }
        }
        if corrupt {
            bytes.extend_from_slice(b"7 sort bitvec 99999999999999999999999\n");
        }
        Input {
            spec: Spec {
                parser: ParserId::Btor2,
                lit: 0,
                flag: false,
            },
            bytes,
            class: "large-btor2".into(),
        }
    });
    (
        prop_oneof![2 => cnf, 1 => btor],
        crate::source::parser_feed_strategy(),
        prop_oneof![Just(None), Just(Some(4096usize)), Just(Some(1000usize))],
    )
        .prop_map(|(input, mut feed, chunk)| {
            feed.chunk = chunk;
            Case { input, feed }
        })
}

/// A document with one comment line of tens of megabytes (a single look-ahead larger than any
/// "reasonable" internal limit); described by its parameters so that the case stays small.
#[derive(Serialize, Deserialize, Clone, Debug, PartialEq, Eq, Hash)]
pub struct HugeLine {
    /// 0 cnf comment, 1 solver log comment, 2 btor2 comment line, 3 aag comment section
    pub format: u8,
    pub len: usize,
    pub chunk: Option<usize>,
}

pub fn check_huge_line(h: &HugeLine, obs: &mut Obs) -> CheckResult {
    let filler = |n: usize| (0..n).map(|i| b'a' + (i % 23) as u8);
    let (parser, bytes): (ParserId, Vec<u8>) = match h.format % 4 {
        0 => (ParserId::Cnf, b"1 2 0\nc ".iter().copied().chain(filler(h.len)).chain(b"\n-1 3 0\n2 0\n".iter().copied()).collect()),
        1 => (
            ParserId::Log,
            b"c ".iter().copied().chain(filler(h.len)).chain(b"\ns SATISFIABLE\nv 1 -2 0\n".iter().copied()).collect(),
        ),
        2 => (
            ParserId::Btor2,
            b"1 sort bitvec 8\n; ".iter().copied().chain(filler(h.len)).chain(b"\n2 input 1 x\n".iter().copied()).collect(),
        ),
        _ => (ParserId::AagParse, b"aag 1 1 0 1 0\n2\n2\nc\n".iter().copied().chain(filler(h.len)).chain(b"\n".iter().copied()).collect()),
    };
    obs.class("line>64MiB");
    let c = Case {
        input: Input {
            spec: Spec { parser, lit: 3, flag: false },
            bytes,
            class: "huge-line".into(),
        },
        feed: Feed {
            chunk: h.chunk,
            ..Feed::one_shot()
        },
    };
    check(&c, obs)?;
    // the documents are well-formed by construction: both deliveries agreeing on a rejection (an
    // internal size limit hit at the same place) is not agreement on the right result
    let (t, _) = drivers::run(&c.input.spec, Rc::new(c.input.bytes.clone()), &c.feed, None, false);
    if t.fin != Final::End {
        fail!(
            format!("C01:{}:huge-line-rejected", parser.name()),
            "{}: a well-formed document with one line of {} bytes is not parsed to a clean end under any delivery: {}",
            c.input.spec.describe(),
            h.len,
            t.fin.short()
        );
    }
    Ok(())
}

fn run(ctx: &Ctx) {
    // four cases per run (shards 0..3): ~70 MB each
    if ctx.shard < 4 {
        let strat = (0u8..4, (65usize << 20)..(72 << 20), prop_oneof![Just(None), Just(Some(1usize << 20)), Just(Some(40usize << 20))])
            .prop_map(|(format, len, chunk)| HugeLine { format, len, chunk });
        ctx.run_cases("differential-huge-line", 1, strat, check_huge_line);
    }
    let n = ctx.share(ctx.tier.pick(1_200_000, 40_000_000));
    let strat = (input_strategy(10, true), crate::source::parser_feed_strategy()).prop_map(|(input, feed)| Case { input, feed });
    ctx.run_cases("differential", n, strat, check);
    let n = ctx.share(ctx.tier.pick(1_600, 40_000));
    ctx.run_cases("differential-large", n, large_case_strategy(), check);
}

fn replay(oracle: &str, v: &Value) -> Option<CheckResult> {
    match oracle {
        "differential-huge-line" => Some(match replay_from_file::<HugeLine>(v) {
            Ok(c) => check_huge_line(&c, &mut Obs::default()),
            Err(e) => Err(Failure::new("C01:decode", e)),
        }),
        "differential" | "differential-large" => Some(match replay_from_file::<Case>(v) {
            Ok(c) => check(&c, &mut Obs::default()),
            Err(e) => Err(Failure::new("C01:decode", e)),
        }),
        _ => None,
    }
}

//! C11 — the buffered writer delivers exactly the written bytes, in order, once.
use serde_json::Value;

use super::PropDef;
use crate::engine::{replay_from_file, CheckResult, Ctx, Failure, Obs};
use crate::writer_model::{classify, run_whistory, whistory_strategy, WHistory, WOracles};

pub fn def() -> PropDef {
    PropDef {
        id: "C11",
        level: "exploration",
        profiles: &["checked", "fast"],
        abort_is_violation: false,
        rule: "proptest-generated operation histories over write / write_all / write_all_defer_err (lengths 0..64, \
               up to 3000, next to the buffer end +-3, capacity-1/capacity/capacity+1/3*capacity), \
               write::text::ascii_digits for all 12 integer types (0, MIN, MAX, +-10^k, powers of two, random), \
               buf_write_ptr + advance_unchecked, flush, flush_defer_err, check_io_error, drop; sinks: accept-all, \
               short writes (1, 7, 1000, 5000, random), Interrupted, Ok(0), failing at a generated call index \
               (once or twice). Oracle: reference stream W of position-dependent pseudo-random content; without \
               failure the sink holds exactly W after flush/drop; with failures: writes succeed, the error is \
               reported exactly once by the next flush/check_io_error, no sink call between failure and report, \
               exact prefix before the first failure, received bytes are an in-order selection of W. \
               Non-trivial: the history crossed the 16 KiB buffer capacity at least once (fill/flush/write-through \
               path), or the sink failed and data was written between failure and report.",
        assumptions: &[
            "the buffer capacity is 16 KiB (DeferredWriter::DEFAULT_CHUNK_SIZE); it is only used to aim lengths at the buffer end, not by the oracle (except: a non-null buf_write_ptr for more than 16 KiB)",
            "a re-sent segment is recognised because content is a pseudo-random function of the stream position; segments shorter than ~3 bytes could be missed",
        ],
        exhaustive: |_| false,
        run,
        replay,
    }
}

const WHICH: WOracles = WOracles {
    stream: true,
    safety: false,
};

pub fn check(h: &WHistory, obs: &mut Obs) -> CheckResult {
    let st = run_whistory(h, WHICH, "C11")?;
    classify(h, &st, obs);
    if st.crossed_capacity > 0 || (st.sink_failures > 0 && st.writes_between_failure_and_report > 0) {
        obs.nontrivial();
    }
    Ok(())
}

fn run(ctx: &Ctx) {
    let n = ctx.share(ctx.tier.pick(600_000, 20_000_000));
    ctx.run_cases("history", n, whistory_strategy(40, false), check);
}

fn replay(oracle: &str, v: &Value) -> Option<CheckResult> {
    match oracle {
        "history" => Some(match replay_from_file::<WHistory>(v) {
            Ok(h) => check(&h, &mut Obs::default()),
            Err(e) => Err(Failure::new("C11:decode", e)),
        }),
        _ => None,
    }
}

//! C13 — decimal scanning is exact for every integer width; fast equals simple.
use std::panic::{catch_unwind, AssertUnwindSafe};
use std::rc::Rc;

use flussab::text;
use flussab::DeferredReader;
use proptest::prelude::*;
use serde::{Deserialize, Serialize};
use serde_json::{json, Value};

use super::PropDef;
use crate::engine::{panic_message, replay_from_file, show_bytes, CheckResult, Ctx, Failure, Obs, Tier, NSHARDS};
use crate::source::{build_reader, Ctor, Feed, Schedule};
use crate::{ensure, fail};

pub fn def() -> PropDef {
    PropDef {
        id: "C13",
        level: "exploration",
        profiles: &["checked", "fast"],
        abort_is_violation: false,
        rule: "proptest: (12 integer types) x (ascii_digits, signed_ascii_digits, both _multi variants) x byte \
               strings built from optional '-', leading zeros, digit runs of 0..45 digits, boundary decimals \
               (MIN/MAX of the type and +-1, 10^k), any terminator byte and tail, x scan offset 0..16 x amount \
               pre-buffered (selects SWAR or byte-wise path; the rest arrives bytewise); oracle = string \
               arithmetic reference; all four functions must agree with it. Kernel sweep: ascii_digits_multi::<u64> \
               and signed_ascii_digits_multi::<i64> over enumerated digit strings (quick: all of 0..6 digits + \
               strided 7-8 digits; thorough: all of 0..8 digits) x terminators, and per lane all 256 byte values. \
               Non-trivial: a run of at least one digit. Distinct by hash of the case (proptest) or by \
               construction (sweep).",
        assumptions: &[
            "the reference compares decimal strings with the type's MIN/MAX rendered by the standard library",
            "checked and fast build profiles are both exercised (shards alternate)",
        ],
        exhaustive: |_| false,
        run,
        replay,
    }
}

pub const TYPES: [&str; 12] = [
    "i8", "i16", "i32", "i64", "i128", "isize", "u8", "u16", "u32", "u64", "u128", "usize",
];
pub const FUNCS: [&str; 4] = [
    "ascii_digits",
    "ascii_digits_multi",
    "signed_ascii_digits",
    "signed_ascii_digits_multi",
];

#[derive(Serialize, Deserialize, Clone, Debug, PartialEq, Eq, Hash)]
pub struct Case {
    #[serde(with = "crate::engine::hexbytes")]
    pub data: Vec<u8>,
    pub off: usize,
    /// Bytes buffered before the call (the rest arrives one byte per read).
    pub pre: usize,
    pub ty: usize,
    /// The source does not end behind the data, it fails there.
    #[serde(default)]
    pub fail_end: bool,
}

fn type_bounds(ty: usize) -> (String, String) {
    // (MAX as decimal, |MIN| as decimal)
    macro_rules! b {
        ($t:ty) => {
            (
                <$t>::MAX.to_string(),
                <$t>::MIN.to_string().trim_start_matches('-').to_string(),
            )
        };
    }
    match TYPES[ty] {
        "i8" => b!(i8),
        "i16" => b!(i16),
        "i32" => b!(i32),
        "i64" => b!(i64),
        "i128" => b!(i128),
        "isize" => b!(isize),
        "u8" => b!(u8),
        "u16" => b!(u16),
        "u32" => b!(u32),
        "u64" => b!(u64),
        "u128" => b!(u128),
        "usize" => b!(usize),
        _ => unreachable!(),
    }
}

fn dec_le(a: &str, b: &str) -> bool {
    // both without leading zeros ("" = 0)
    a.len() < b.len() || (a.len() == b.len() && a <= b)
}

/// Reference: canonical decimal text of the value (None = not representable) and the end offset.
fn reference(s: &[u8], off: usize, signed_fn: bool, ty: usize) -> (Option<String>, usize) {
    let mut p = off;
    let mut neg = false;
    if signed_fn
        && s.get(p) == Some(&b'-')
        && matches!(s.get(p + 1), Some(b'0'..=b'9'))
    {
        neg = true;
        p += 1;
    }
    let start = p;
    while matches!(s.get(p), Some(b'0'..=b'9')) {
        p += 1;
    }
    let digits = std::str::from_utf8(&s[start.min(s.len())..p.min(s.len())]).unwrap();
    let mag = digits.trim_start_matches('0');
    let (max, min_mag) = type_bounds(ty);
    let value = if mag.is_empty() {
        Some("0".to_string())
    } else if neg {
        // unsigned types have |MIN| = 0, so any non-zero negative value is out of range
        if min_mag != "0" && dec_le(mag, &min_mag) {
            Some(format!("-{mag}"))
        } else {
            None
        }
    } else if dec_le(mag, &max) {
        Some(mag.to_string())
    } else {
        None
    };
    (value, if p > start { p } else { off })
}

fn call(reader: &mut DeferredReader, off: usize, func: usize, ty: usize) -> (Option<String>, usize) {
    macro_rules! go {
        ($t:ty) => {{
            let (v, o) = match func {
                0 => text::ascii_digits::<$t>(reader, off),
                1 => text::ascii_digits_multi::<$t>(reader, off),
                2 => text::signed_ascii_digits::<$t>(reader, off),
                _ => text::signed_ascii_digits_multi::<$t>(reader, off),
            };
            (v.map(|v| v.to_string()), o)
        }};
    }
    match TYPES[ty] {
        "i8" => go!(i8),
        "i16" => go!(i16),
        "i32" => go!(i32),
        "i64" => go!(i64),
        "i128" => go!(i128),
        "isize" => go!(isize),
        "u8" => go!(u8),
        "u16" => go!(u16),
        "u32" => go!(u32),
        "u64" => go!(u64),
        "u128" => go!(u128),
        "usize" => go!(usize),
        _ => unreachable!(),
    }
}

pub fn check(c: &Case, obs: &mut Obs) -> CheckResult {
    let ty = c.ty % TYPES.len();
    let data = Rc::new(c.data.clone());
    let mut feed = Feed {
        sched: Schedule::bytewise(),
        chunk: Some(1),
        ctor: Ctor::FromRead,
        late_chunk: false,
    };
    if c.fail_end {
        feed.sched.fail_at = Some((c.data.len(), crate::source::ErrKind::Other));
        obs.class("source-fails-behind-the-data");
    }
    let mut digits_seen = false;
    for func in 0..FUNCS.len() {
        let (mut r, _log) = build_reader(data.clone(), &feed, None);
        r.request(c.pre);
        let buffered = r.buf_len();
        let pos0 = r.position();
        let (want_v, want_o) = reference(&c.data, c.off, func >= 2, ty);
        if want_o > c.off {
            digits_seen = true;
        }
        let sig = format!("C13:{}:{}", TYPES[ty], FUNCS[func]);
        let got = catch_unwind(AssertUnwindSafe(|| call(&mut r, c.off, func, ty)));
        let (got_v, got_o) = match got {
            Ok(x) => x,
            Err(p) => fail!(
                format!("{sig}:panic"),
                "{}::<{}>({:?} @ {}) panicked: {} ({} bytes buffered)",
                FUNCS[func],
                TYPES[ty],
                show_bytes(&c.data),
                c.off,
                panic_message(&p),
                buffered
            ),
        };
        ensure!(
            got_o == want_o,
            format!("{sig}:offset"),
            "{}::<{}>({:?} @ {}) returned offset {}, reference {} ({} bytes buffered)",
            FUNCS[func],
            TYPES[ty],
            show_bytes(&c.data),
            c.off,
            got_o,
            want_o,
            buffered
        );
        ensure!(
            got_v == want_v,
            format!("{sig}:value"),
            "{}::<{}>({:?} @ {}) returned {:?}, reference {:?} ({} bytes buffered, {} path)",
            FUNCS[func],
            TYPES[ty],
            show_bytes(&c.data),
            c.off,
            got_v,
            want_v,
            buffered,
            if buffered >= c.off + 8 { "SWAR" } else { "byte-wise" }
        );
        ensure!(
            r.position() == pos0,
            format!("{sig}:consumed"),
            "{} moved the cursor",
            FUNCS[func]
        );
        if func == 1 {
            obs.class(if buffered >= c.off + 8 { "path/swar" } else { "path/bytewise" });
        }
    }
    // classes
    let (_, end) = reference(&c.data, c.off, true, ty);
    let neg = c.data.get(c.off) == Some(&b'-') && end > c.off;
    let ndig = end.saturating_sub(c.off) - neg as usize;
    obs.class(format!("type/{}", TYPES[ty]));
    obs.class(match ndig {
        0 => "digits/0",
        1..=6 => "digits/1-6",
        7 => "digits/7",
        8 => "digits/8",
        9 => "digits/9",
        10..=20 => "digits/10-20",
        _ => "digits/>20",
    });
    obs.class_if(neg, "negative");
    obs.class_if(neg && ty >= 6, "minus-on-unsigned");
    let (v, _) = reference(&c.data, c.off, true, ty);
    obs.class_if(v.is_none(), "overflow");
    if digits_seen {
        obs.nontrivial();
    }
    Ok(())
}

fn boundary_numbers(ty: usize) -> Vec<String> {
    let (max, min_mag) = type_bounds(ty);
    let mut v = vec![max.clone(), min_mag.clone()];
    // +-1 around the bounds, via simple decimal increment/decrement
    fn inc(s: &str) -> String {
        let mut d: Vec<u8> = s.bytes().collect();
        let mut i = d.len();
        loop {
            if i == 0 {
                d.insert(0, b'1');
                break;
            }
            i -= 1;
            if d[i] == b'9' {
                d[i] = b'0';
            } else {
                d[i] += 1;
                break;
            }
        }
        String::from_utf8(d).unwrap()
    }
    fn dec(s: &str) -> String {
        if s == "0" {
            return "0".into();
        }
        let mut d: Vec<u8> = s.bytes().collect();
        let mut i = d.len();
        loop {
            i -= 1;
            if d[i] == b'0' {
                d[i] = b'9';
            } else {
                d[i] -= 1;
                break;
            }
        }
        let t = String::from_utf8(d).unwrap();
        let t = t.trim_start_matches('0');
        if t.is_empty() { "0".into() } else { t.to_string() }
    }
    v.push(inc(&max));
    v.push(dec(&max));
    v.push(inc(&min_mag));
    v.push(dec(&min_mag));
    // one more digit, and the same digit count with a larger leading digit
    v.push(format!("{max}0"));
    v.push(format!("9{}", &max[1..]));
    for k in [6usize, 7, 8, 9, 10, 19, 20, 38, 39] {
        v.push(format!("1{}", "0".repeat(k)));
        v.push("9".repeat(k));
    }
    v
}

fn case_strategy() -> impl Strategy<Value = Case> {
    let number = (0..TYPES.len()).prop_flat_map(|ty| {
        let bounds = boundary_numbers(ty);
        (
            Just(ty),
            prop_oneof![
                3 => proptest::sample::select(bounds),
                3 => "[0-9]{0,12}",
                2 => "[0-9]{7,9}",
                1 => "[0-9]{13,45}",
                1 => Just(String::new()),
            ],
        )
    });
    (
        number,
        0usize..=16,                                       // prefix length (scan offset)
        prop_oneof![3 => Just(0u8), 2 => Just(1u8), 1 => Just(2u8)], // 0 none, 1 '-', 2 '--'/'+'
        prop_oneof![6 => Just(0usize), 4 => 1usize..=3, 2 => 4usize..=30, 1 => proptest::sample::select(vec![7usize, 8, 9, 15, 16, 17, 24, 32, 40])], // leading zeros
        prop_oneof![3 => any::<u8>(), 1 => proptest::sample::select(b"-+ \n\t0x:/".to_vec())], // terminator
        proptest::collection::vec(prop_oneof![(b'0'..=b'9'), any::<u8>()], 0..12), // tail
        any::<u16>(),                                      // pre-buffered amount selector
        any::<bool>(),                                     // no terminator at all (end of input)
        proptest::bool::weighted(0.15),                    // the source fails behind the data
        prop_oneof![30 => Just(0usize), 1 => 1usize..=9],  // scan offset this far behind the end of the input
    )
        .prop_map(|((ty, digits), plen, sign, zeros, term, tail, pre, at_end, fail_end, beyond)| {
            let mut data = Vec::new();
            for i in 0..plen {
                data.push(b"x7-\n "[i % 5]);
            }
            let off = data.len();
            match sign {
                1 => data.push(b'-'),
                2 => data.extend_from_slice(if zeros % 2 == 0 { b"--" } else { b"+" }),
                _ => {}
            }
            data.extend(std::iter::repeat(b'0').take(zeros));
            data.extend_from_slice(digits.as_bytes());
            if !at_end {
                data.push(term);
                data.extend_from_slice(&tail);
            }
            let (data, off) = if beyond > 0 {
                // nothing at the scan offset: it lies behind the last byte
                let mut d = data;
                d.truncate(off);
                (d, off + beyond)
            } else {
                (data, off)
            };
            let pre = (pre as usize * (data.len() + 9)) >> 16;
            Case { data, off, pre, ty, fail_end }
        })
}

// ---------------------------------------------------------------------------------------------
// Kernel sweep

#[derive(Serialize, Deserialize, Clone, Debug, PartialEq, Eq, Hash)]
pub struct KernelCase {
    #[serde(with = "crate::engine::hexbytes")]
    pub data: Vec<u8>,
    pub off: usize,
    pub signed: bool,
}

pub fn kernel_check(c: &KernelCase, _obs: &mut Obs) -> CheckResult {
    let data = Rc::new(c.data.clone());
    let (mut r, _) = build_reader(data.clone(), &Feed::one_shot(), None);
    r.request(c.data.len());
    kernel_one(&mut r, &c.data, c.off, c.signed)
}

fn kernel_one(r: &mut DeferredReader, s: &[u8], off: usize, signed: bool) -> CheckResult {
    let (ty, func) = if signed { (3, 3) } else { (9, 1) };
    let (want_v, want_o) = reference(s, off, signed, ty);
    let got = catch_unwind(AssertUnwindSafe(|| call(r, off, func, ty)));
    let sig = format!("C13:kernel:{}", FUNCS[func]);
    match got {
        Err(p) => fail!(
            format!("{sig}:panic"),
            "{} panicked on {:?}: {}",
            FUNCS[func],
            show_bytes(&s[off..(off + 20).min(s.len())]),
            panic_message(&p)
        ),
        Ok((v, o)) => {
            if v != want_v || o != want_o {
                fail!(
                    format!("{sig}:mismatch"),
                    "{} on {:?}: returned ({:?}, +{}), reference ({:?}, +{})",
                    FUNCS[func],
                    show_bytes(&s[off..(off + 20).min(s.len())]),
                    v,
                    o - off.min(o),
                    want_v,
                    want_o - off
                );
            }
        }
    }
    Ok(())
}

struct Sweep<'a> {
    ctx: &'a Ctx,
    buf: Vec<u8>,
    offs: Vec<(usize, bool)>,
    evals: u64,
    nontrivial: u64,
    failed: bool,
    samples: u32,
}

impl<'a> Sweep<'a> {
    fn push(&mut self, rec: &[u8], signed: bool) {
        if self.failed {
            return;
        }
        self.offs.push((self.buf.len(), signed));
        self.buf.extend_from_slice(rec);
        // filler: digits, so that a kernel ignoring the terminator is caught
        self.buf.extend_from_slice(b"7777777;");
        if self.buf.len() > (1 << 20) {
            self.flush();
        }
    }
    fn flush(&mut self) {
        if self.offs.is_empty() {
            return;
        }
        self.buf.extend_from_slice(b"\n\n\n\n\n\n\n\n\n");
        let data = Rc::new(std::mem::take(&mut self.buf));
        let (mut r, _) = build_reader(data.clone(), &Feed::one_shot(), None);
        r.request(data.len());
        for &(off, signed) in &self.offs {
            self.evals += 1;
            let has_digit = matches!(data.get(off + signed as usize), Some(b'0'..=b'9'));
            if has_digit {
                self.nontrivial += 1;
            }
            if kernel_one(&mut r, &data, off, signed).is_err() {
                let end = (off + 32).min(data.len());
                let case = KernelCase {
                    data: data[off..end].to_vec(),
                    off: 0,
                    signed,
                };
                // re-check on the isolated record; register whichever reproduces
                self.ctx.run_one("kernel", &case, kernel_check);
                self.failed = true;
                break;
            } else if self.samples < 2 && has_digit && off > 4096 {
                self.samples += 1;
                let end = (off + 20).min(data.len());
                self.ctx.add_sample(json!({"oracle": "kernel", "case": KernelCase {
                    data: data[off..end].to_vec(), off: 0, signed }}));
            }
        }
        self.offs.clear();
    }
}

fn kernel_sweep(ctx: &Ctx) {
    let mut sw = Sweep {
        ctx,
        buf: Vec::with_capacity(1 << 21),
        offs: Vec::new(),
        evals: 0,
        nontrivial: 0,
        failed: false,
        samples: 0,
    };
    let terms_all: [u8; 6] = [b' ', b'\n', b'/', b':', 0x00, 0xb5];
    let full_len: u32 = ctx.tier.pick(7, 8);
    let mut index = 0u64;
    let mut rec = Vec::with_capacity(16);
    // all digit strings of length 0..=full_len
    for len in 0..=full_len {
        let total = 10u64.pow(len);
        let terms: &[u8] = if len <= 6 { &terms_all } else { &terms_all[..3] };
        for n in 0..total {
            index += 1;
            if index % NSHARDS as u64 != ctx.shard as u64 {
                continue;
            }
            for &t in terms {
                rec.clear();
                if len > 0 {
                    let s = format!("{:0width$}", n, width = len as usize);
                    rec.extend_from_slice(s.as_bytes());
                }
                rec.push(t);
                sw.push(&rec, false);
                if len <= 7 {
                    // signed kernel: '-' + up to 7 digits fits the first 8-byte block
                    rec.insert(0, b'-');
                    sw.push(&rec, true);
                }
            }
        }
    }
    if !sw.failed {
        ctx.exhaustive_part(format!(
            "ascii_digits_multi::<u64> on every digit string of length 0..{full_len} (and '-' + 0..{} digits through signed_ascii_digits_multi::<i64>) with {} terminators",
            full_len.min(7),
            terms_all.len()
        ));
    }
    // quick tier: strided 7- and 8-digit strings
    if full_len < 8 {
        for (len, total, stride) in [(7u32, 10_000_000u64, 97u64), (8, 100_000_000, 997)] {
            if len <= full_len {
                continue;
            }
            let mut n = (ctx.shard as u64 * 6) % stride;
            while n < total {
                for &t in &terms_all[..2] {
                    rec.clear();
                    rec.extend_from_slice(format!("{:0width$}", n, width = len as usize).as_bytes());
                    rec.push(t);
                    sw.push(&rec, false);
                    rec.insert(0, b'-');
                    sw.push(&rec, true);
                }
                n += stride;
            }
        }
    }
    // per lane: all 256 byte values after representative prefixes
    if ctx.shard == 0 {
        for lane in 0..8usize {
            for prefix in ["00000000", "99999999", "12345678", "80706050"] {
                for b in 0..=255u8 {
                    rec.clear();
                    rec.extend_from_slice(&prefix.as_bytes()[..lane]);
                    rec.push(b);
                    sw.push(&rec, false);
                    if lane < 7 {
                        rec.insert(0, b'-');
                        sw.push(&rec, true);
                    }
                }
            }
        }
        if !sw.failed {
            ctx.exhaustive_part("per lane 0..7: all 256 byte values after 4 representative digit prefixes");
        }
    }
    sw.flush();
    ctx.tally_enumerated(sw.evals, sw.nontrivial);
    ctx.count("kernel/calls", sw.evals);
}

fn run(ctx: &Ctx) {
    kernel_sweep(ctx);
    let n = ctx.share(ctx.tier.pick(3_000_000, 150_000_000));
    ctx.run_cases("scan", n, case_strategy(), check);
}

fn replay(oracle: &str, v: &Value) -> Option<CheckResult> {
    match oracle {
        "scan" => Some(match replay_from_file::<Case>(v) {
            Ok(c) => check(&c, &mut Obs::default()),
            Err(e) => Err(Failure::new("C13:decode", e)),
        }),
        "kernel" => Some(match replay_from_file::<KernelCase>(v) {
            Ok(c) => kernel_check(&c, &mut Obs::default()),
            Err(e) => Err(Failure::new("C13:decode", e)),
        }),
        _ => None,
    }
}

#[allow(dead_code)]
fn _t(_: Tier) {}

//! Byte-level decoding layer for the coverage-guided fuzz targets (/verif/fuzz): turns libFuzzer's
//! byte strings into the same structured cases the proptest generators produce, runs the same
//! oracles, and writes a harness replay file when one fails.
use std::sync::OnceLock;

use serde_json::Value;

use crate::drivers::{ParserId, Spec, ALL_PARSERS};
use crate::engine::{self, Failure, KnownFinding, Obs, ReplayFile};
use crate::inputs::Input;
use crate::reader_model::{History, Op};
use crate::source::{Ctor, ErrKind, Feed, Schedule, Step};
use crate::writer_model::{Len, SinkScript, SinkStep, WHistory, WOp};

fn oracles() -> &'static Vec<String> {
    static O: OnceLock<Vec<String>> = OnceLock::new();
    O.get_or_init(|| {
        std::env::var("FV_FUZZ_ORACLES")
            .unwrap_or_else(|_| "C01,C05,C08,C02,C09,C14,C11".to_string())
            .split(',')
            .map(|s| s.trim().to_string())
            .collect()
    })
}

fn enabled(p: &str) -> bool {
    oracles().iter().any(|o| o == p)
}

fn known_open() -> &'static Vec<KnownFinding> {
    static K: OnceLock<Vec<KnownFinding>> = OnceLock::new();
    K.get_or_init(|| {
        engine::load_known()
            .findings
            .into_iter()
            .filter(|k| k.status == "open")
            .collect()
    })
}

struct Cur<'a> {
    d: &'a [u8],
    i: usize,
}

impl<'a> Cur<'a> {
    fn byte(&mut self) -> u8 {
        let b = self.d.get(self.i).copied().unwrap_or(0);
        self.i += 1;
        b
    }
    fn u16(&mut self) -> u16 {
        let lo = self.byte() as u16;
        let hi = self.byte() as u16;
        lo | hi << 8
    }
    fn rest(&self) -> &'a [u8] {
        &self.d[self.i.min(self.d.len())..]
    }
}

fn decode_feed(c: &mut Cur) -> Feed {
    let chunk = match c.byte() {
        0 => None,
        n @ 1..=64 => Some(n as usize),
        65..=128 => Some(4096),
        n => Some((n as usize - 128) * 8),
    };
    let ctor = match c.byte() {
        0 => Ctor::FromRead,
        1 => Ctor::Boxed,
        200 => Ctor::BufReader(8192),
        201 => Ctor::BufReader(20000),
        202 => Ctor::FreshBufReader(8192),
        203 => Ctor::FreshBufReader(5),
        n => Ctor::BufReader((n as usize - 1).min(64)),
    };
    let n = (c.byte() % 8) as usize;
    let mut steps = vec![];
    for _ in 0..n {
        steps.push(match c.byte() {
            0 => Step::Intr,
            254 => Step::IntrBurst(70),
            253 => Step::IntrBurst(1000),
            255 => Step::Give(u32::MAX),
            k => Step::Give(k as u32),
        });
    }
    if steps.is_empty() {
        steps.push(Step::Give(u32::MAX));
    }
    Feed {
        sched: Schedule {
            steps,
            fail_at: None,
            line_bounded: false,
            overreport: None,
            sticky: false,
            wrapped: false,
        }
        .normalised(),
        chunk,
        ctor,
        late_chunk: false,
    }
}

pub fn encode_feed(f: &Feed, out: &mut Vec<u8>) {
    out.push(match f.chunk {
        None => 0,
        Some(n @ 1..=64) => n as u8,
        Some(4096) => 65,
        Some(n) => (128 + (n / 8).clamp(1, 127)) as u8,
    });
    out.push(match f.ctor {
        Ctor::FromRead => 0,
        Ctor::Boxed => 1,
        Ctor::BufReader(n) => (n.min(64) + 1) as u8,
        Ctor::FreshBufReader(n) => if n > 64 { 202 } else { 203 },
    });
    let steps: Vec<&Step> = f.sched.steps.iter().take(7).collect();
    out.push(steps.len() as u8);
    for s in steps {
        out.push(match s {
            Step::Intr => 0,
            Step::IntrBurst(n) => if *n > 500 { 253 } else { 254 },
            Step::Give(u32::MAX) => 255,
            Step::Give(n) => (*n).clamp(1, 252) as u8,
        });
    }
}

/// parse target: [parser][lit|flag][feed ...][document bytes]
pub fn decode_parse(data: &[u8]) -> (Input, Feed) {
    let mut c = Cur { d: data, i: 0 };
    let parser = ALL_PARSERS[c.byte() as usize % ALL_PARSERS.len()];
    let b = c.byte();
    let spec = Spec {
        parser,
        lit: (b & 7) % 5,
        flag: b & 0x80 != 0 && Spec::flag_applies(parser),
    };
    let feed = decode_feed(&mut c);
    (
        Input {
            spec,
            bytes: c.rest().to_vec(),
            class: "fuzz".into(),
        },
        feed,
    )
}

pub fn encode_parse(input: &Input, feed: &Feed) -> Vec<u8> {
    let mut out = vec![
        ALL_PARSERS.iter().position(|p| *p == input.spec.parser).unwrap_or(0) as u8,
        (input.spec.lit % 5) | if input.spec.flag { 0x80 } else { 0 },
    ];
    encode_feed(feed, &mut out);
    out.extend_from_slice(&input.bytes);
    out
}

/// reader_ops target: [feed][fail][overreport][nops][ops: 3 bytes each][data]
pub fn decode_history(data: &[u8]) -> History {
    let mut c = Cur { d: data, i: 0 };
    let mut feed = decode_feed(&mut c);
    let fail = c.byte();
    let fail_frac = c.u16();
    let over = c.byte();
    let nops = (c.byte() % 64) as usize;
    let mut ops = vec![];
    for _ in 0..nops {
        let k = c.byte();
        let a = c.u16();
        ops.push(match k % 20 {
            0 | 1 => Op::Request {
                num: (a & 7) as u8,
                add: (a >> 3) % 41,
            },
            2 => Op::RequestByte,
            3 => Op::RequestByteAt((a % 81) as u64),
            4 => match a % 16 {
                0 => Op::RequestByteAt(u64::MAX - (a >> 4) as u64 % 4),
                1 => Op::RequestByteAt(1 << 63),
                2 => Op::RequestHuge((a >> 4) % 4),
                _ => Op::RequestByteAt((a % 81) as u64),
            },
            5 => Op::RequestMore,
            6 | 7 | 8 => Op::Advance(a),
            9 => Op::AdvanceWithBuf(a),
            10 => Op::AdvanceUnchecked(a),
            11 => Op::SetMark,
            12 => Op::SetMarkRel((a % 41) as i32 - 20),
            13 => Op::SetChunk(if a % 9 == 0 { 4096 } else { (a as usize % 64) + 1 }),
            14 => Op::CheckIoError,
            15 => Op::ScanDigits(a % 41),
            16 => Op::ScanNextNewline(a % 41),
            17 => Op::AdvanceTooFar(a as u64),
            18 if a % 7 == 0 => Op::SetChunkAbsurd(a % 4),
            18 => Op::AdvanceHuge(a % 300),
            _ => Op::AdvanceWithBufTooFar(a as u64),
        });
    }
    let data = c.rest().to_vec();
    if fail % 4 == 1 {
        let k = (fail_frac as usize * (data.len() + 1)) >> 16;
        feed.sched.fail_at = Some((k, ErrKind::all()[(fail / 4) as usize % 15]));
        feed.sched.sticky = fail & 0x80 != 0;
    }
    if over % 5 == 1 {
        feed.sched.overreport = Some((1 + (over / 5) as u32 % 5, (over / 25) as u32));
    }
    History {
        data,
        feed,
        ops,
        consumed_before: (over / 7) as usize % 9,
    }
}

/// writer_ops target: [sink tail][nsteps][steps: 2 bytes each][seed][ops: 4 bytes each]
pub fn decode_whistory(data: &[u8]) -> WHistory {
    let mut c = Cur { d: data, i: 0 };
    let tail_accept = match c.byte() % 6 {
        0 | 1 => u32::MAX,
        2 => 1,
        3 => 7,
        4 => 1000,
        _ => 5000,
    };
    let n = (c.byte() % 10) as usize;
    let mut steps = vec![];
    for _ in 0..n {
        let k = c.byte();
        let a = c.byte();
        steps.push(match k % 10 {
            0..=5 => SinkStep::Accept(match a % 6 {
                0 => u32::MAX,
                1 => 1,
                2 => 7,
                3 => 1000,
                4 => 5000,
                _ => a as u32 * 80 + 1,
            }),
            6 => SinkStep::Intr,
            7 => SinkStep::Zero,
            8 => SinkStep::Fail(ErrKind::all()[a as usize % 15]),
            _ => SinkStep::Panic,
        });
    }
    let seed_byte = c.byte();
    let content_seed = (seed_byte & 0x3f) as u64;
    let mut ops = vec![];
    while c.i + 4 <= data.len() && ops.len() < 60 {
        let k = c.byte();
        let a = c.u16();
        let b = c.byte();
        let len = match b % 8 {
            0..=3 => Len::Abs(a as u32 % 65),
            4 => Len::Abs(a as u32 % 3001),
            5 => Len::ToCapacity((a % 7) as i8 - 3),
            6 => Len::Abs([16383u32, 16384, 16385, 49152][a as usize % 4]),
            _ => Len::Abs(5000 + a as u32 % 35000),
        };
        ops.push(match k % 12 {
            0 => WOp::Write(len),
            1 => WOp::WriteAll(len),
            2 => WOp::WriteAllDefer(len),
            3 | 4 | 5 => {
                let bits: u128 = match b % 6 {
                    0 => 0,
                    1 => u128::MAX,
                    2 => 1u128 << (a % 128),
                    3 => (1u128 << (a % 128)) - 1,
                    4 => 10u128.pow(a as u32 % 39),
                    _ => (a as u128) * 0x0001_0001_0001_0001_0001_0001_0001_0001,
                };
                WOp::Digits { ty: k / 12 % 12, bits }
            }
            6 => WOp::BufPtr {
                len: a as u32 % 201,
                fill: b as u32 % 201,
            },
            7 => WOp::BufPtr {
                len: 15000 + a as u32 % 2001,
                fill: b as u32 % 41,
            },
            8 => WOp::Flush,
            9 => WOp::FlushDefer,
            10 => WOp::CheckIoError,
            11 if b % 2 == 0 => WOp::DigitsNearEnd {
                free: (a % 43) as u8,
                ty: b / 2 % 12,
                bits: if a & 0x100 == 0 { u128::MAX } else { (a as u128) << (b % 100) },
            },
            _ => WOp::BufPtrAbsurd(b),
        });
    }
    WHistory {
        ops,
        sink: SinkScript { steps, tail_accept },
        content_seed,
        unwind_drop: seed_byte & 0x80 != 0,
        boxed: seed_byte & 0x40 != 0,
    }
}

fn report(prop: &str, oracle: &str, case: Value, f: &Failure) -> ! {
    let rf = ReplayFile {
        property: prop.to_string(),
        oracle: oracle.to_string(),
        sig: f.sig.clone(),
        detail: f.detail.clone(),
        case,
    };
    let text = serde_json::to_string_pretty(&rf).unwrap();
    let dir = engine::replay_dir();
    let _ = std::fs::create_dir_all(&dir);
    let path = dir.join(format!("{}-fuzz-{}-{:016x}.json", prop, oracle, engine::hash64(&text)));
    let _ = std::fs::write(&path, text);
    eprintln!("VIOLATION property={} replay={}", prop, path.display());
    eprintln!("  oracle={} sig={}", oracle, f.sig);
    eprintln!("  {}", f.detail);
    panic!("VIOLATION property={} replay={}", prop, path.display());
}

fn judge(prop: &str, oracle: &str, case: impl FnOnce() -> Value, r: engine::CheckResult) {
    if let Err(f) = r {
        if known_open().iter().any(|k| k.signature == f.sig) {
            return;
        }
        report(prop, oracle, case(), &f);
    }
}

pub fn init() {
    static ONCE: OnceLock<()> = OnceLock::new();
    ONCE.get_or_init(|| {
        // Expected panics inside the library are caught and judged by the oracles; only the final
        // VIOLATION panic may reach libFuzzer. Keep the default hook for those.
        let default = std::panic::take_hook();
        std::panic::set_hook(Box::new(move |info| {
            let msg = info.to_string();
            if msg.contains("VIOLATION property=") {
                default(info);
            }
        }));
    });
}

pub fn fuzz_parse(data: &[u8]) {
    init();
    if data.len() < 5 || data.len() > 4096 {
        return;
    }
    let (input, feed) = decode_parse(data);
    let spec_parser: ParserId = input.spec.parser;
    let _ = spec_parser;
    if enabled("C01") {
        let c = crate::props::c01::Case {
            input: input.clone(),
            feed: feed.clone(),
        };
        let r = crate::props::c01::check(&c, &mut Obs::default());
        judge("C01", "differential", || serde_json::to_value(&c).unwrap(), r);
    }
    if enabled("C05") {
        let c = crate::props::c05::Case {
            input: input.clone(),
            feed: Some(feed.clone()),
        };
        let r = crate::props::c05::check(&c, &mut Obs::default());
        judge("C05", "robustness", || serde_json::to_value(&c).unwrap(), r);
    }
    if enabled("C08") {
        let c = crate::props::c08::BoundsCase {
            input: input.clone(),
            feed: feed.clone(),
        };
        let r = crate::props::c08::check_bounds(&c, &mut Obs::default());
        judge("C08", "bounds", || serde_json::to_value(&c).unwrap(), r);
    }
    if enabled("C06") {
        let c = crate::props::c06::Case {
            input: input.clone(),
            feed: feed.clone(),
        };
        let r = crate::props::c06::check(&c, &mut Obs::default());
        judge("C06", "reference-reading", || serde_json::to_value(&c).unwrap(), r);
    }
}

pub fn fuzz_reader_ops(data: &[u8]) {
    init();
    if data.len() < 8 || data.len() > 2048 {
        return;
    }
    let h = decode_history(data);
    let hostile = h.ops.iter().any(|o| o.is_hostile()) || h.feed.sched.overreport.is_some();
    if hostile {
        if enabled("C14") {
            let r = crate::props::c14::check_reader(&h, &mut Obs::default());
            judge("C14", "reader-history", || serde_json::to_value(&h).unwrap(), r);
        }
        return;
    }
    if enabled("C02") {
        let r = crate::props::c02::check(&h, &mut Obs::default());
        judge("C02", "history", || serde_json::to_value(&h).unwrap(), r);
    }
    if enabled("C09") {
        let r = crate::props::c09::check_reads(&h, &mut Obs::default());
        judge("C09", "read-accounting", || serde_json::to_value(&h).unwrap(), r);
    }
}

pub fn fuzz_writer_ops(data: &[u8]) {
    init();
    if data.len() < 4 || data.len() > 512 {
        return;
    }
    let h = decode_whistory(data);
    let hostile = h.ops.iter().any(|o| matches!(o, WOp::BufPtrAbsurd(_)))
        || h.sink.steps.iter().any(|s| matches!(s, SinkStep::Panic));
    if hostile {
        if enabled("C14") {
            let r = crate::props::c14::check_writer(&h, &mut Obs::default());
            judge("C14", "writer-history", || serde_json::to_value(&h).unwrap(), r);
        }
        return;
    }
    if enabled("C11") {
        let r = crate::props::c11::check(&h, &mut Obs::default());
        judge("C11", "history", || serde_json::to_value(&h).unwrap(), r);
    }
}

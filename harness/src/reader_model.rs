//! Reference model of `DeferredReader` and an interpreter that runs an operation history against
//! the real reader and the model, comparing every observer after every step. Used by C02 (window
//! semantics), C09 (read-call accounting) and C14 (memory safety after caught panics).
use std::panic::{catch_unwind, AssertUnwindSafe};
use std::rc::Rc;

use proptest::prelude::*;
use serde::{Deserialize, Serialize};

use crate::engine::{show_bytes, CheckResult, Failure, Obs};
use crate::source::{build_reader_consumed, errkind_strategy, feed_strategy, ErrKind, Feed, FAULT_MSG};

#[derive(Serialize, Deserialize, Clone, Debug, PartialEq, Eq, Hash)]
pub enum Op {
    /// `request(buffered * num / 4 + add)`
    Request { num: u8, add: u16 },
    RequestByte,
    /// `request_byte_at_offset(k)`; replays written with small offsets stay valid.
    RequestByteAt(u64),
    /// `request(usize::MAX - back)`: reads to the end, returns what there is.
    RequestHuge(u16),
    /// `request(n)` with an absolute length (look-ahead of hundreds of kilobytes).
    RequestAbs(u32),
    RequestMore,
    /// `advance(n)` with `n = frac * (buffered + 1) >> 16` (always within the buffered data).
    Advance(u16),
    AdvanceWithBuf(u16),
    AdvanceUnchecked(u16),
    SetMark,
    /// `set_mark_to_position(position + delta)` (wrapping).
    SetMarkRel(i32),
    SetChunk(usize),
    CheckIoError,
    /// Scan helpers of `flussab::text` that must not move the cursor.
    ScanDigits(u16),
    ScanNextNewline(u16),
    // ---- out-of-contract calls, C14 only: documented to panic, caught by the harness ----
    /// `advance(buffered + 1 + extra)`
    AdvanceTooFar(u64),
    /// `advance(usize::MAX - back)`
    AdvanceHuge(u16),
    AdvanceWithBufTooFar(u64),
    /// `set_chunk_size(usize::MAX - back)`: legal to call; the next refill cannot succeed and
    /// panics (capacity overflow / slice index / arithmetic overflow). The panic is caught; the
    /// exposed window must be what it was. A later `SetChunk` restores a usable size.
    SetChunkAbsurd(u16),
}

impl Op {
    pub fn is_hostile(&self) -> bool {
        matches!(
            self,
            Op::AdvanceTooFar(_) | Op::AdvanceHuge(_) | Op::AdvanceWithBufTooFar(_)
        )
    }
}

#[derive(Serialize, Deserialize, Clone, Debug, PartialEq, Eq, Hash)]
pub struct History {
    #[serde(with = "crate::engine::hexbytes")]
    pub data: Vec<u8>,
    pub feed: Feed,
    pub ops: Vec<Op>,
    /// With the BufReader constructor: bytes consumed from the BufReader before it is handed to
    /// `from_buf_reader` (a partly consumed BufReader).
    #[serde(default)]
    pub consumed_before: usize,
}

#[derive(Default, Debug, Clone)]
pub struct RunStats {
    pub realigns: u32,
    pub mark_checked_after_realign: bool,
    pub terminal_seen: bool,
    pub ops_after_terminal: u32,
    pub error_reported: bool,
    pub caught_panics: u32,
    pub ops_after_panic: u32,
    pub max_buffered: usize,
    pub total_advanced: usize,
    pub overreport_panics: u32,
}

/// Which groups of assertions are active (so that each property reports only its own oracle).
#[derive(Clone, Copy, Debug)]
pub struct Oracles {
    /// C02: window content, position, mark, flags, request results.
    pub window: bool,
    /// C09: minimal number of reads, no call after the terminal result, offered sizes.
    pub reads: bool,
    /// C14: window length/content after caught panics; documented panics must happen.
    pub safety: bool,
}

struct Model {
    pos: usize,
    mark: usize,
    chunk: usize,
    error_parked: bool,
    /// Mirror of "cursor is this far into the buffer" according to the documented realign policy.
    in_buf: usize,
}

pub fn run_history(h: &History, which: Oracles, prop: &str) -> Result<RunStats, Failure> {
    // (safety oracle: fresh heap memory is recognisable while the history runs)
    struct PoisonGuard(bool);
    impl Drop for PoisonGuard {
        fn drop(&mut self) {
            if self.0 {
                crate::alloc::set_poison(false);
            }
        }
    }
    let _poison = PoisonGuard(which.safety);
    if which.safety {
        crate::alloc::set_poison(true);
    }
    let data = Rc::new(h.data.clone());
    let (mut reader, log, base) = build_reader_consumed(data.clone(), &h.feed, None, h.consumed_before);
    // the reader's stream starts behind the bytes consumed from the BufReader beforehand
    let s: &[u8] = &data[base..];
    let mut m = Model {
        pos: 0,
        mark: 0,
        chunk: h.feed.chunk_size().max(1),
        error_parked: false,
        in_buf: 0,
    };
    let mut st = RunStats::default();
    let fault_kind: Option<ErrKind> = h.feed.sched.fail_at.map(|(_, k)| k);
    let bufreader = matches!(h.feed.ctor, crate::source::Ctor::BufReader(_) | crate::source::Ctor::FreshBufReader(_));
    let mut panicked_before = false;
    let mut realign_seen_since_mark = false;

    macro_rules! bad {
        ($what:expr, $($arg:tt)*) => {
            return Err(Failure::new(format!("{}:{}", prop, $what), format!($($arg)*)))
        };
    }

    // Full observer comparison.
    macro_rules! observe {
        ($i:expr, $op:expr) => {{
            let l = log.borrow();
            let d = l.delivered - base;
            let blen = reader.buf_len();
            let check_window = which.window || which.safety;
            if check_window {
                if m.pos.checked_add(blen).map_or(true, |e| e > d) {
                    bad!(
                        "window-exceeds-delivered",
                        "step {} {:?}: buf_len() = {} at position {} reaches past the {} bytes the source delivered",
                        $i,
                        $op,
                        blen,
                        m.pos,
                        d
                    );
                }
                // The debug assertion inside buf() is part of the oracle in checked builds.
                let b = match catch_unwind(AssertUnwindSafe(|| reader.buf().to_vec())) {
                    Ok(b) => b,
                    Err(_) => bad!(
                        "buf-panics",
                        "step {} {:?}: buf() panicked (window invariant broken)",
                        $i,
                        $op
                    ),
                };
                if b.len() != blen {
                    bad!(
                        "buf-len-mismatch",
                        "step {} {:?}: buf().len() = {} but buf_len() = {}",
                        $i,
                        $op,
                        b.len(),
                        blen
                    );
                }
                if m.pos + blen > d {
                    bad!(
                        "window-exceeds-delivered",
                        "step {} {:?}: window [{}..{}) reaches past the {} bytes the source delivered",
                        $i,
                        $op,
                        m.pos,
                        m.pos + blen,
                        d
                    );
                }
                if !bufreader && m.pos + blen != d {
                    bad!(
                        "window-lost-bytes",
                        "step {} {:?}: position {} + buffered {} != delivered {}",
                        $i,
                        $op,
                        m.pos,
                        blen,
                        d
                    );
                }
                if b[..] != s[m.pos..m.pos + blen] {
                    bad!(
                        "window-content",
                        "step {} {:?}: buf() = {:?} but the source bytes at {}.. are {:?}",
                        $i,
                        $op,
                        show_bytes(&b),
                        m.pos,
                        show_bytes(&s[m.pos..m.pos + blen])
                    );
                }
                if blen > 0 {
                    let p = reader.buf_ptr();
                    // buf_ptr must designate the same window.
                    if p != reader.buf().as_ptr() {
                        bad!("buf-ptr", "step {} {:?}: buf_ptr() != buf().as_ptr()", $i, $op);
                    }
                }
            }
            if which.window {
                if reader.position() != m.pos {
                    bad!(
                        "position",
                        "step {} {:?}: position() = {} but {} bytes were advanced over",
                        $i,
                        $op,
                        reader.position(),
                        m.pos
                    );
                }
                if reader.mark() != m.mark {
                    bad!(
                        if realign_seen_since_mark { "mark-after-realign" } else { "mark" },
                        "step {} {:?}: mark() = {} but the mark was set to absolute offset {} ({} realign(s) so far)",
                        $i,
                        $op,
                        reader.mark(),
                        m.mark,
                        st.realigns
                    );
                }
                if realign_seen_since_mark {
                    st.mark_checked_after_realign = true;
                }
                if reader.is_complete() != l.terminal_returned {
                    bad!(
                        "is-complete",
                        "step {} {:?}: is_complete() = {} but the source {} its terminal result",
                        $i,
                        $op,
                        reader.is_complete(),
                        if l.terminal_returned { "has returned" } else { "has not returned" }
                    );
                }
                let at_end = l.terminal_returned && blen == 0;
                if reader.is_at_end() != at_end {
                    bad!(
                        "is-at-end",
                        "step {} {:?}: is_at_end() = {}, expected {}",
                        $i,
                        $op,
                        reader.is_at_end(),
                        at_end
                    );
                }
                if reader.io_error().is_some() != m.error_parked {
                    bad!(
                        "io-error-flag",
                        "step {} {:?}: io_error().is_some() = {}, expected {}",
                        $i,
                        $op,
                        reader.io_error().is_some(),
                        m.error_parked
                    );
                }
                if let Some(e) = reader.io_error() {
                    if Some(e.kind()) != fault_kind.map(|k| k.kind()) || e.to_string() != FAULT_MSG || !crate::source::is_injected(e) {
                        bad!("io-error-kind", "step {} {:?}: parked error {:?} is not the injected one", $i, $op, e);
                    }
                }
            }
            if which.safety && l.poisoned_offers != 0 {
                bad!(
                    "uninitialised-buffer-offered",
                    "step {} {:?}: the slice handed to the source's read() held uninitialised heap memory ({} such read(s))",
                    $i,
                    $op,
                    l.poisoned_offers
                );
            }
            if which.reads {
                if l.calls_after_terminal != 0 {
                    bad!(
                        "read-after-terminal",
                        "step {} {:?}: the source was called {} time(s) after it had reported end of input / an error",
                        $i,
                        $op,
                        l.calls_after_terminal
                    );
                }
                if l.empty_offers != 0 {
                    bad!("empty-offer", "step {} {:?}: a zero-length slice was offered to the source", $i, $op);
                }
            }
            st.max_buffered = st.max_buffered.max(blen);
        }};
    }

    if which.reads && log.borrow().calls != 0 {
        bad!(
            "read-during-construction",
            "the source was called {} time(s) while the reader was being constructed ({}), before anything was requested",
            log.borrow().calls,
            h.feed.ctor.class()
        );
    }
    observe!(-1i64, "construction");

    for (i, op) in h.ops.iter().enumerate() {
        let i = i as i64;
        let before = log.borrow().clone();
        let buffered = reader.buf_len();
        let complete_before = before.terminal_returned;
        if complete_before {
            st.ops_after_terminal += 1;
        }
        if panicked_before {
            st.ops_after_panic += 1;
        }
        let mut requested: Option<usize> = None; // request length for the minimality check
        let mut exactly_one = false;

        // ---- call phase: the real reader, guarded against (expected and unexpected) panics ----
        enum R {
            Bytes(Vec<u8>),
            Byte(Option<u8>),
            Flag(bool),
            Offset(usize),
            Checked(std::io::Result<()>),
            Unit,
        }
        let adv_n = match op {
            Op::Advance(f) | Op::AdvanceWithBuf(f) | Op::AdvanceUnchecked(f) => {
                ((*f as usize) * (buffered + 1)) >> 16
            }
            Op::AdvanceTooFar(x) | Op::AdvanceWithBufTooFar(x) => {
                (buffered + 1).saturating_add(*x as usize)
            }
            Op::AdvanceHuge(back) => usize::MAX - *back as usize,
            _ => 0,
        };
        let req_n = match op {
            Op::Request { num, add } => buffered * (*num as usize) / 4 + *add as usize,
            Op::RequestByteAt(k) => *k as usize,
            Op::RequestHuge(back) => usize::MAX - *back as usize,
            Op::RequestAbs(n) => *n as usize,
            Op::ScanDigits(off) | Op::ScanNextNewline(off) => (*off as usize) % (buffered + 2),
            _ => 0,
        };
        if op.is_hostile() && adv_n <= buffered {
            // (cannot happen for TooFar; AdvanceHuge with a gigantic buffer) - nothing to do
            continue;
        }
        let called = catch_unwind(AssertUnwindSafe(|| match op {
            Op::Request { .. } | Op::RequestHuge(_) | Op::RequestAbs(_) => R::Bytes(reader.request(req_n).to_vec()),
            Op::RequestByte => R::Byte(reader.request_byte()),
            Op::RequestByteAt(_) => R::Byte(reader.request_byte_at_offset(req_n)),
            Op::RequestMore => R::Flag(reader.request_more()),
            Op::Advance(_) | Op::AdvanceTooFar(_) | Op::AdvanceHuge(_) => {
                reader.advance(adv_n);
                R::Unit
            }
            Op::AdvanceWithBuf(_) | Op::AdvanceWithBufTooFar(_) => {
                R::Bytes(reader.advance_with_buf(adv_n).to_vec())
            }
            Op::AdvanceUnchecked(_) => {
                unsafe { reader.advance_unchecked(adv_n) };
                R::Unit
            }
            Op::SetChunkAbsurd(back) => {
                reader.set_chunk_size(usize::MAX - *back as usize);
                R::Unit
            }
            Op::SetMark => {
                reader.set_mark();
                R::Unit
            }
            Op::SetMarkRel(d) => {
                reader.set_mark_to_position(m.pos.wrapping_add(*d as isize as usize));
                R::Unit
            }
            Op::SetChunk(c) => {
                reader.set_chunk_size((*c).max(1));
                R::Unit
            }
            Op::CheckIoError => R::Checked(reader.check_io_error()),
            Op::ScanDigits(_) => R::Offset(flussab::text::ascii_digits_multi::<u64>(&mut reader, req_n).1),
            Op::ScanNextNewline(_) => R::Offset(flussab::text::next_newline(&mut reader, req_n)),
        }));
        let result = match called {
            Ok(r) => {
                if op.is_hostile() {
                    bad!(
                        "no-panic",
                        "step {} {:?}: advancing by {} with {} bytes buffered did not panic although documented to",
                        i,
                        op,
                        adv_n,
                        buffered
                    );
                }
                r
            }
            Err(p) => {
                let msg = crate::engine::panic_message(&p);
                let lied = log.borrow().overreports > before.overreports;
                if op.is_hostile() && msg.contains("advanced past") {
                    st.caught_panics += 1;
                    panicked_before = true;
                } else if lied && msg.contains("invariant of std::io::Read trait violated") {
                    st.caught_panics += 1;
                    st.overreport_panics += 1;
                    panicked_before = true;
                } else if m.chunk > usize::MAX / 2 {
                    // a refill with an absurd chunk size: any panic is acceptable, the state is not
                    st.caught_panics += 1;
                    panicked_before = true;
                } else if op.is_hostile() {
                    // Panicked, but not with the documented message (e.g. an arithmetic overflow
                    // check fired first). Still a panic, i.e. safe; keep going.
                    st.caught_panics += 1;
                    panicked_before = true;
                } else {
                    bad!("panic", "step {} {:?} panicked: {}", i, op, msg);
                }
                observe!(i, op);
                continue;
            }
        };
        if log.borrow().overreports > before.overreports {
            bad!(
                "overreport-accepted",
                "step {} {:?}: the source reported more bytes than the slice it was given and the reader did not panic",
                i,
                op
            );
        }

        // ---- check phase ----
        match (op, result) {
            (Op::Request { .. } | Op::RequestHuge(_) | Op::RequestAbs(_), R::Bytes(got)) => {
                let n = req_n;
                requested = Some(n);
                let l = log.borrow();
                if which.window {
                    if got.len() < n && !l.terminal_returned {
                        bad!(
                            "request-short",
                            "step {} request({}) returned {} bytes although the source has not ended or failed",
                            i,
                            n,
                            got.len()
                        );
                    }
                    if got.len() != reader.buf_len() {
                        bad!("request-not-whole-window", "step {} request({}) returned {} bytes, buf_len() is {}", i, n, got.len(), reader.buf_len());
                    }
                }
            }
            (Op::RequestByte | Op::RequestByteAt(_), R::Byte(got)) => {
                let k = req_n;
                requested = Some(k.saturating_add(1));
                let l = log.borrow();
                if which.window {
                    let at = m.pos.checked_add(k);
                    let want = at.and_then(|a| s.get(a).copied().filter(|_| a < l.delivered - base));
                    match (got, want) {
                        (Some(a), Some(b)) if a == b => {}
                        (None, _) if l.terminal_returned && reader.buf_len() <= k => {}
                        _ => bad!(
                            "request-byte",
                            "step {} {:?}: returned {:?}; source byte at {} is {:?}, delivered {}, terminal {}",
                            i,
                            op,
                            got,
                            m.pos as u128 + k as u128,
                            at.and_then(|a| s.get(a)),
                            l.delivered,
                            l.terminal_returned
                        ),
                    }
                }
            }
            (Op::RequestMore, R::Flag(r)) => {
                exactly_one = true;
                if which.window && r == complete_before {
                    bad!("request-more-result", "step {} request_more() returned {} with is_complete() = {} before", i, r, complete_before);
                }
            }
            (Op::Advance(_) | Op::AdvanceUnchecked(_), R::Unit) => {
                m.pos += adv_n;
                m.in_buf += adv_n;
                st.total_advanced += adv_n;
            }
            (Op::AdvanceWithBuf(_), R::Bytes(got)) => {
                let n = adv_n;
                if (which.window || which.safety) && got[..] != s[m.pos..m.pos + n] {
                    bad!(
                        "advance-with-buf",
                        "step {} advance_with_buf({}) returned {:?}, source bytes are {:?}",
                        i,
                        n,
                        show_bytes(&got),
                        show_bytes(&s[m.pos..m.pos + n])
                    );
                }
                m.pos += n;
                m.in_buf += n;
                st.total_advanced += n;
            }
            (Op::SetMark, _) => {
                m.mark = m.pos;
                realign_seen_since_mark = false;
            }
            (Op::SetMarkRel(d), _) => {
                m.mark = m.pos.wrapping_add(*d as isize as usize);
                realign_seen_since_mark = false;
            }
            (Op::SetChunk(c), _) => {
                m.chunk = (*c).max(1);
            }
            (Op::SetChunkAbsurd(back), _) => {
                m.chunk = usize::MAX - *back as usize;
            }
            (Op::CheckIoError, R::Checked(r)) => {
                if which.window {
                    match (&r, m.error_parked) {
                        (Err(e), true) => {
                            if Some(e.kind()) != fault_kind.map(|k| k.kind()) || !crate::source::is_injected(e) {
                                bad!("check-io-error-kind", "step {} check_io_error returned {:?}, not the error value the source returned ({:?})", i, e, fault_kind);
                            }
                            st.error_reported = true;
                        }
                        (Ok(()), false) => {}
                        _ => bad!(
                            "check-io-error",
                            "step {} check_io_error() = {:?} but an error {} parked",
                            i,
                            r,
                            if m.error_parked { "is" } else { "is not" }
                        ),
                    }
                }
                m.error_parked = false;
            }
            (Op::ScanDigits(_) | Op::ScanNextNewline(_), R::Offset(end)) => {
                if which.window && end < req_n {
                    bad!("scan-offset", "step {} {:?} returned offset {} < start {}", i, op, end, req_n);
                }
            }
            _ => {}
        }

        // Source-call accounting for this step.
        let after = log.borrow().clone();
        let new_calls = after.calls - before.calls;
        let new_data = after.data_reads - before.data_reads;
        let terminal_now = after.terminal_returned && !before.terminal_returned;
        if terminal_now {
            st.terminal_seen = true;
            if after.terminal_was_error {
                m.error_parked = true;
            }
        }
        // Mirror the documented realign policy: one refill attempt per data read / terminal
        // result; a refill that finds the cursor more than two chunks into the buffer realigns.
        let refills = new_data + terminal_now as u64;
        for _ in 0..refills {
            if m.in_buf > m.chunk.saturating_mul(2) {
                m.in_buf = 0;
                st.realigns += 1;
                realign_seen_since_mark = true;
            }
        }
        if which.reads && !bufreader {
            if new_calls > 0 {
                if after.max_offer > m.chunk && after.max_offer != before.max_offer {
                    bad!("offer-too-large", "step {} {:?}: a slice of {} bytes was offered with chunk size {}", i, op, after.max_offer, m.chunk);
                }
                if complete_before {
                    bad!("read-after-terminal", "step {} {:?}: {} call(s) reached the source after it had ended", i, op, new_calls);
                }
            }
            if let Some(n) = requested {
                if buffered >= n && new_calls != 0 {
                    bad!(
                        "needless-read",
                        "step {} {:?}: {} bytes were buffered, {} requested, yet the source was called {} time(s)",
                        i,
                        op,
                        buffered,
                        n,
                        new_calls
                    );
                }
                if new_data > 0 {
                    let before_last = reader.buf_len() - after.last_give;
                    if before_last >= n {
                        bad!(
                            "read-ahead",
                            "step {} {:?}: the last read was issued although {} >= {} bytes were already buffered",
                            i,
                            op,
                            before_last,
                            n
                        );
                    }
                }
            }
            if exactly_one && !complete_before && refills != 1 {
                bad!(
                    "request-more-count",
                    "step {} request_more(): {} data-returning/terminal read results instead of exactly one",
                    i,
                    refills
                );
            }
            if !matches!(
                op,
                Op::Request { .. }
                    | Op::RequestHuge(_)
                    | Op::RequestAbs(_)
                    | Op::RequestByte
                    | Op::RequestByteAt(_)
                    | Op::RequestMore
                    | Op::ScanDigits(_)
                    | Op::ScanNextNewline(_)
            ) && new_calls != 0
            {
                bad!("unexpected-read", "step {} {:?}: the source was called by an operation that must not read", i, op);
            }
        }
        observe!(i, op);
    }
    Ok(st)
}

pub fn classify(h: &History, st: &RunStats, obs: &mut Obs) {
    obs.class_if(
        h.consumed_before > 0 && matches!(h.feed.ctor, crate::source::Ctor::BufReader(_)),
        "partly-consumed-bufreader",
    );
    obs.class(format!("ctor/{}", h.feed.ctor.class()));
    obs.class(format!("chunk/{}", h.feed.chunk_class()));
    obs.class(format!("sched/{}", h.feed.sched.class()));
    obs.class_if(st.realigns > 0, "realign>=1");
    obs.class_if(st.realigns > 3, "realign>3");
    obs.class_if(st.mark_checked_after_realign, "mark-observed-after-realign");
    obs.class_if(st.terminal_seen, "terminal-in-history");
    obs.class_if(st.terminal_seen && st.ops_after_terminal > 0, "ops-after-terminal");
    obs.class_if(h.feed.sched.fail_at.is_some(), "failing-source");
    obs.class_if(st.error_reported, "error-reported-by-check_io_error");
    obs.class_if(st.caught_panics > 0, "caught-panic");
}

pub fn op_strategy(hostile: bool) -> BoxedStrategy<Op> {
    let base = prop_oneof![
        4 => (0u8..=8, 0u16..=40).prop_map(|(num, add)| Op::Request { num, add }),
        2 => Just(Op::RequestByte),
        3 => (0u64..=80).prop_map(Op::RequestByteAt),
        1 => prop_oneof![
            (0u64..=3).prop_map(|b| Op::RequestByteAt(u64::MAX - b)),
            Just(Op::RequestByteAt(1 << 63)),
            Just(Op::RequestByteAt(1 << 32)),
            (0u16..=3).prop_map(Op::RequestHuge),
        ],
        2 => Just(Op::RequestMore),
        5 => any::<u16>().prop_map(Op::Advance),
        2 => Just(Op::Advance(u16::MAX)),
        3 => any::<u16>().prop_map(Op::AdvanceWithBuf),
        2 => any::<u16>().prop_map(Op::AdvanceUnchecked),
        2 => Just(Op::SetMark),
        1 => (-20i32..=20).prop_map(Op::SetMarkRel),
        1 => prop_oneof![8 => (1usize..=64), 2 => Just(4096usize), 1 => Just(20_000usize), 1 => Just(100_000usize)].prop_map(Op::SetChunk),
        1 => Just(Op::CheckIoError),
        1 => (0u16..=40).prop_map(Op::ScanDigits),
        1 => (0u16..=40).prop_map(Op::ScanNextNewline),
    ];
    if hostile {
        prop_oneof![
            12 => base,
            1 => prop_oneof![Just(0u64), 0u64..=1000, Just(u64::MAX / 2)].prop_map(Op::AdvanceTooFar),
            1 => (0u16..=300).prop_map(Op::AdvanceHuge),
            1 => prop_oneof![Just(0u64), 0u64..=1000].prop_map(Op::AdvanceWithBufTooFar),
            1 => prop_oneof![0u16..=3, Just(100u16), Just(20_000u16)].prop_map(Op::SetChunkAbsurd),
        ]
        .boxed()
    } else {
        base.boxed()
    }
}

pub fn data_strategy(max: usize) -> impl Strategy<Value = Vec<u8>> {
    // Mostly text-like bytes with digits and newlines (so that the scan helpers do something),
    // but every byte value occurs.
    let byte = prop_oneof![
        5 => b'0'..=b'9',
        2 => Just(b'\n'),
        2 => Just(b' '),
        3 => b'a'..=b'z',
        2 => any::<u8>(),
    ];
    proptest::collection::vec(byte, 0..max)
}

pub fn history_strategy(max_data: usize, max_ops: usize, hostile: bool) -> impl Strategy<Value = History> {
    (
        data_strategy(max_data),
        feed_strategy(),
        proptest::collection::vec(op_strategy(hostile), 0..max_ops),
        proptest::option::weighted(0.3, (any::<u16>(), errkind_strategy())),
    )
        .prop_map(|(data, mut feed, ops, fail)| {
            if let Some((f, kind)) = fail {
                let k = ((f as usize) * (data.len() + 1)) >> 16;
                feed.sched.fail_at = Some((k, kind));
                feed.sched.sticky = f & 1 == 1;
                feed.sched.wrapped = f & 6 == 6;
            }
            History {
                data,
                feed,
                ops,
                consumed_before: 0,
            }
        })
}

/// Histories over 0.3..1 MB of data whose operations look ahead by hundreds of kilobytes and then
/// advance over most of the window (buffer growth, realign with a large window, shrinking).
pub fn huge_history_strategy() -> impl Strategy<Value = History> {
    let op = prop_oneof![
        5 => prop_oneof![1000u32..=70_000, 70_000u32..=700_000].prop_map(Op::RequestAbs),
        4 => prop_oneof![Just(u16::MAX), 50_000u16..=65_535, any::<u16>()].prop_map(Op::Advance),
        2 => any::<u16>().prop_map(Op::AdvanceWithBuf),
        2 => Just(Op::RequestMore),
        1 => Just(Op::RequestByte),
        1 => (0u64..=300_000).prop_map(Op::RequestByteAt),
        1 => Just(Op::SetMark),
        1 => (0u8..=8, 0u16..=40).prop_map(|(num, add)| Op::Request { num, add }),
        1 => prop_oneof![Just(64usize), Just(4096usize), Just(16384usize), Just(100_000usize)].prop_map(Op::SetChunk),
    ];
    (
        data_strategy(5000),
        300_000usize..=1_000_000,
        feed_strategy(),
        prop_oneof![3 => Just(None), 1 => Just(Some(4096usize)), 1 => Just(Some(64usize)), 1 => Just(Some(65_536usize))],
        proptest::collection::vec(op, 4..30),
        proptest::option::weighted(0.2, (any::<u16>(), errkind_strategy())),
    )
        .prop_map(|(base, len, mut feed, chunk, ops, fail)| {
            let mut data = Vec::with_capacity(len + base.len());
            let mut round = 0u8;
            while data.len() < len {
                // position-dependent so that a stale window is not mistaken for the right one
                data.extend(base.iter().map(|b| b.wrapping_add(round)));
                data.push(round);
                round = round.wrapping_add(1);
            }
            feed.chunk = chunk;
            // reads of kilobytes, otherwise a megabyte takes a million calls
            feed.sched.steps = vec![crate::source::Step::Give(if base.len() % 2 == 0 { u32::MAX } else { 3000 + base.len() as u32 })];
            if let Some((f, kind)) = fail {
                let k = ((f as usize) * (data.len() + 1)) >> 16;
                feed.sched.fail_at = Some((k, kind));
                feed.sched.sticky = f & 1 == 1;
                feed.sched.wrapped = f & 6 == 6;
            }
            History {
                data,
                feed,
                ops,
                consumed_before: 0,
            }
        })
}

pub fn check_result(r: Result<RunStats, Failure>) -> CheckResult {
    r.map(|_| ())
}

//! Owned mirror of `flussab_btor2::btor2::Line` (the crate's type borrows from the parser), with
//! conversions in both directions through the crate's public constructors only.
use bstr::BStr;
use flussab::DeferredWriter;
use flussab_btor2::btor2::*;
use serde::{Deserialize, Serialize};

pub const UNARY_PLAIN: [UnaryOp; 7] = [
    UnaryOp::Not,
    UnaryOp::Inc,
    UnaryOp::Dec,
    UnaryOp::Neg,
    UnaryOp::Redand,
    UnaryOp::Redor,
    UnaryOp::Redxor,
];

pub const BINARY_OPS: [BinaryOp; 40] = [
    BinaryOp::Iff,
    BinaryOp::Implies,
    BinaryOp::Eq,
    BinaryOp::Neq,
    BinaryOp::Ugt,
    BinaryOp::Sgt,
    BinaryOp::Ugte,
    BinaryOp::Sgte,
    BinaryOp::Ult,
    BinaryOp::Slt,
    BinaryOp::Ulte,
    BinaryOp::Slte,
    BinaryOp::And,
    BinaryOp::Nand,
    BinaryOp::Nor,
    BinaryOp::Or,
    BinaryOp::Xnor,
    BinaryOp::Xor,
    BinaryOp::Rol,
    BinaryOp::Ror,
    BinaryOp::Sll,
    BinaryOp::Sra,
    BinaryOp::Srl,
    BinaryOp::Add,
    BinaryOp::Mul,
    BinaryOp::Udiv,
    BinaryOp::Sdiv,
    BinaryOp::Smod,
    BinaryOp::Urem,
    BinaryOp::Srem,
    BinaryOp::Sub,
    BinaryOp::Uaddo,
    BinaryOp::Saddo,
    BinaryOp::Sdivo,
    BinaryOp::Umulo,
    BinaryOp::Smulo,
    BinaryOp::Usubo,
    BinaryOp::Ssubo,
    BinaryOp::Concat,
    BinaryOp::Read,
];

/// The keyword of each binary operator according to the BTOR2 format description (independent of
/// the crate's `name()` table).
pub const BINARY_NAMES: [&str; 40] = [
    "iff", "implies", "eq", "neq", "ugt", "sgt", "ugte", "sgte", "ult", "slt", "ulte", "slte", "and",
    "nand", "nor", "or", "xnor", "xor", "rol", "ror", "sll", "sra", "srl", "add", "mul", "udiv",
    "sdiv", "smod", "urem", "srem", "sub", "uaddo", "saddo", "sdivo", "umulo", "smulo", "usubo",
    "ssubo", "concat", "read",
];
pub const UNARY_PLAIN_NAMES: [&str; 7] = ["not", "inc", "dec", "neg", "redand", "redor", "redxor"];

#[derive(Clone, Debug, PartialEq, Eq, Hash, Serialize, Deserialize)]
pub enum BVar {
    SortBitvec(u64),
    SortArray(u64, u64),
    /// kind: 'b' binary, 'd' decimal, 'h' hex
    ConstText { kind: char, sort: u64, text: String },
    /// kind: "one" | "ones" | "zero"
    ConstSimple { kind: String, sort: u64 },
    Input(u64),
    State(u64),
    /// op index into UNARY_PLAIN
    Unary { op: usize, sort: u64, a: u64 },
    /// signed: sext, else uext
    Ext { signed: bool, sort: u64, a: u64, pad: u64 },
    Slice { sort: u64, a: u64, upper: u64, lower: u64 },
    /// op index into BINARY_OPS
    Binary { op: usize, sort: u64, a: u64, b: u64 },
    /// write: array update, else ite
    Ternary { write: bool, sort: u64, a: u64, b: u64, c: u64 },
    /// next: state update, else init
    Assign { next: bool, sort: u64, state: u64, value: u64 },
    /// kind: "output" | "bad" | "constraint" | "fair"
    Output { kind: String, value: u64 },
    Justice(Vec<u64>),
}

#[derive(Clone, Debug, PartialEq, Eq, Hash, Serialize, Deserialize)]
pub enum BLine {
    Comment(#[serde(with = "crate::engine::hexbytes")] Vec<u8>),
    Node {
        id: u64,
        var: BVar,
        #[serde(default)]
        symbol: Option<HexBytes>,
        #[serde(default)]
        comment: Option<HexBytes>,
    },
}

#[derive(Clone, Debug, PartialEq, Eq, Hash, Serialize, Deserialize)]
pub struct HexBytes(#[serde(with = "crate::engine::hexbytes")] pub Vec<u8>);

fn id(n: NodeId) -> u64 {
    n.0.get()
}

impl BLine {
    pub fn from_line(l: &Line) -> BLine {
        match l {
            Line::Comment(c) => BLine::Comment(c.to_vec()),
            Line::Node(n) => {
                let var = match &n.variant {
                    NodeVariant::Sort(Sort::BitVec(w)) => BVar::SortBitvec(w.get()),
                    NodeVariant::Sort(Sort::Array(Array(d, c))) => BVar::SortArray(id(*d), id(*c)),
                    NodeVariant::Value(v) => {
                        let sort = id(v.sort);
                        match &v.variant {
                            ValueVariant::Const(Const::Binary(c)) => BVar::ConstText {
                                kind: 'b',
                                sort,
                                text: c.to_string(),
                            },
                            ValueVariant::Const(Const::Decimal(c)) => BVar::ConstText {
                                kind: 'd',
                                sort,
                                text: c.to_string(),
                            },
                            ValueVariant::Const(Const::Hex(c)) => BVar::ConstText {
                                kind: 'h',
                                sort,
                                text: c.to_string(),
                            },
                            ValueVariant::Const(Const::One) => BVar::ConstSimple {
                                kind: "one".into(),
                                sort,
                            },
                            ValueVariant::Const(Const::Ones) => BVar::ConstSimple {
                                kind: "ones".into(),
                                sort,
                            },
                            ValueVariant::Const(Const::Zero) => BVar::ConstSimple {
                                kind: "zero".into(),
                                sort,
                            },
                            ValueVariant::Input => BVar::Input(sort),
                            ValueVariant::State => BVar::State(sort),
                            ValueVariant::Op(Op::Unary(op, a)) => match op {
                                UnaryOp::Uext(p) => BVar::Ext {
                                    signed: false,
                                    sort,
                                    a: id(*a),
                                    pad: *p,
                                },
                                UnaryOp::Sext(p) => BVar::Ext {
                                    signed: true,
                                    sort,
                                    a: id(*a),
                                    pad: *p,
                                },
                                UnaryOp::Slice(u, l) => BVar::Slice {
                                    sort,
                                    a: id(*a),
                                    upper: *u,
                                    lower: *l,
                                },
                                other => BVar::Unary {
                                    op: UNARY_PLAIN.iter().position(|o| o == other).unwrap_or(usize::MAX),
                                    sort,
                                    a: id(*a),
                                },
                            },
                            ValueVariant::Op(Op::Binary(op, [a, b])) => BVar::Binary {
                                op: BINARY_OPS.iter().position(|o| o == op).unwrap_or(usize::MAX),
                                sort,
                                a: id(*a),
                                b: id(*b),
                            },
                            ValueVariant::Op(Op::Ternary(op, [a, b, c])) => BVar::Ternary {
                                write: matches!(op, TernaryOp::Write),
                                sort,
                                a: id(*a),
                                b: id(*b),
                                c: id(*c),
                            },
                        }
                    }
                    NodeVariant::Assignment(a) => BVar::Assign {
                        next: matches!(a.kind, AssignmentKind::Next),
                        sort: id(a.sort),
                        state: id(a.state),
                        value: id(a.value),
                    },
                    NodeVariant::Output(Output::SingleValue(o)) => BVar::Output {
                        kind: match o.kind {
                            SingleValueOutputKind::Output => "output",
                            SingleValueOutputKind::Bad => "bad",
                            SingleValueOutputKind::Constraint => "constraint",
                            SingleValueOutputKind::Fair => "fair",
                        }
                        .into(),
                        value: id(o.value),
                    },
                    NodeVariant::Output(Output::Justice(nodes)) => {
                        BVar::Justice(nodes.iter().map(|n| id(*n)).collect())
                    }
                };
                BLine::Node {
                    id: id(n.id),
                    var,
                    symbol: n.symbol.map(|s| HexBytes(s.to_vec())),
                    comment: n.comment.map(|s| HexBytes(s.to_vec())),
                }
            }
        }
    }

    /// Builds the crate's `Line` through the public constructors and writes it with the crate's
    /// writer. Returns an error text when a constructor rejects the value (a generator defect).
    pub fn write_with_crate(&self, w: &mut DeferredWriter, terminated: bool) -> Result<(), String> {
        self.with_line(|line| {
            if terminated {
                line.write_into(w);
            } else {
                line.write_into_unterminated(w);
            }
        })
    }

    /// `Display` of the crate's `Line` built from this value.
    pub fn display_with_crate(&self) -> Result<String, String> {
        self.with_line(|line| line.to_string())
    }

    /// Builds the crate's `Line` through the public constructors and hands it to `f`.
    pub fn with_line<R>(&self, f: impl FnOnce(&Line) -> R) -> Result<R, String> {
        let nodes: Vec<NodeId>;
        let line = match self {
            BLine::Comment(c) => Line::Comment(BStr::new(c)),
            BLine::Node {
                id,
                var,
                symbol,
                comment,
            } => {
                let value = |sort: u64, variant| {
                    NodeVariant::Value(Value {
                        sort: NodeId::new(sort),
                        variant,
                    })
                };
                let variant = match var {
                    BVar::SortBitvec(w) => NodeVariant::Sort(Sort::bit_vec(*w)),
                    BVar::SortArray(d, c) => {
                        NodeVariant::Sort(Sort::Array(Array(NodeId::new(*d), NodeId::new(*c))))
                    }
                    BVar::ConstText { kind, sort, text } => {
                        let c = match kind {
                            'b' => Const::Binary(
                                BinaryConst::try_from(text.as_str()).map_err(|e| format!("{e:?}"))?,
                            ),
                            'd' => Const::Decimal(
                                DecimalConst::try_from(text.as_str()).map_err(|e| format!("{e:?}"))?,
                            ),
                            _ => Const::Hex(
                                HexConst::try_from(text.as_str()).map_err(|e| format!("{e:?}"))?,
                            ),
                        };
                        value(*sort, ValueVariant::Const(c))
                    }
                    BVar::ConstSimple { kind, sort } => value(
                        *sort,
                        ValueVariant::Const(match kind.as_str() {
                            "one" => Const::One,
                            "ones" => Const::Ones,
                            _ => Const::Zero,
                        }),
                    ),
                    BVar::Input(s) => value(*s, ValueVariant::Input),
                    BVar::State(s) => value(*s, ValueVariant::State),
                    BVar::Unary { op, sort, a } => value(
                        *sort,
                        ValueVariant::Op(Op::Unary(UNARY_PLAIN[*op % 7], NodeId::new(*a))),
                    ),
                    BVar::Ext { signed, sort, a, pad } => value(
                        *sort,
                        ValueVariant::Op(Op::Unary(
                            if *signed { UnaryOp::Sext(*pad) } else { UnaryOp::Uext(*pad) },
                            NodeId::new(*a),
                        )),
                    ),
                    BVar::Slice { sort, a, upper, lower } => value(
                        *sort,
                        ValueVariant::Op(Op::Unary(UnaryOp::Slice(*upper, *lower), NodeId::new(*a))),
                    ),
                    BVar::Binary { op, sort, a, b } => value(
                        *sort,
                        ValueVariant::Op(Op::Binary(
                            BINARY_OPS[*op % 40],
                            [NodeId::new(*a), NodeId::new(*b)],
                        )),
                    ),
                    BVar::Ternary { write, sort, a, b, c } => value(
                        *sort,
                        ValueVariant::Op(Op::Ternary(
                            if *write { TernaryOp::Write } else { TernaryOp::Ite },
                            [NodeId::new(*a), NodeId::new(*b), NodeId::new(*c)],
                        )),
                    ),
                    BVar::Assign { next, sort, state, value } => NodeVariant::Assignment(Assignment {
                        state: NodeId::new(*state),
                        sort: NodeId::new(*sort),
                        kind: if *next { AssignmentKind::Next } else { AssignmentKind::Init },
                        value: NodeId::new(*value),
                    }),
                    BVar::Output { kind, value } => {
                        NodeVariant::Output(Output::SingleValue(SingleValueOutput {
                            kind: match kind.as_str() {
                                "output" => SingleValueOutputKind::Output,
                                "bad" => SingleValueOutputKind::Bad,
                                "constraint" => SingleValueOutputKind::Constraint,
                                _ => SingleValueOutputKind::Fair,
                            },
                            value: NodeId::new(*value),
                        }))
                    }
                    BVar::Justice(ns) => {
                        nodes = ns.iter().map(|n| NodeId::new(*n)).collect();
                        NodeVariant::Output(Output::Justice(&nodes))
                    }
                };
                Line::Node(Node {
                    id: NodeId::new(*id),
                    variant,
                    symbol: symbol.as_ref().map(|s| BStr::new(&s.0)),
                    comment: comment.as_ref().map(|s| BStr::new(&s.0)),
                })
            }
        };
        Ok(f(&line))
    }
}

//! Scripted sink (`impl Write`), operation histories for `DeferredWriter` and the reference model
//! of the written stream. Used by C11 (stream semantics) and C14 (memory safety).
use std::cell::RefCell;
use std::io::{self, Write};
use std::panic::{catch_unwind, AssertUnwindSafe};
use std::rc::Rc;

use flussab::DeferredWriter;
use proptest::prelude::*;
use serde::{Deserialize, Serialize};

use crate::engine::{Failure, Obs};
use crate::source::{errkind_strategy, ErrKind, FAULT_MSG};

pub const CAPACITY: usize = 16 << 10;

#[derive(Serialize, Deserialize, Clone, Copy, Debug, PartialEq, Eq, Hash)]
pub enum SinkStep {
    /// Accept at most this many bytes.
    Accept(u32),
    Intr,
    /// Return Ok(0) (std's write_all turns this into a WriteZero error).
    Zero,
    Fail(ErrKind),
    /// C14 only.
    Panic,
}

#[derive(Serialize, Deserialize, Clone, Debug, PartialEq, Eq, Hash)]
pub struct SinkScript {
    /// Responses to the first `write` calls, in order.
    pub steps: Vec<SinkStep>,
    /// Response to all later calls: accept at most this many bytes per call.
    pub tail_accept: u32,
}

#[derive(Default, Debug, Clone)]
pub struct SinkLog {
    pub received: Vec<u8>,
    pub calls: u64,
    pub failures: u64,
    pub empty_offers: u64,
    /// A failure was returned and the harness has not yet seen it reported.
    pub pending: bool,
    /// Calls that reached the sink while a failure was pending. Must stay 0.
    pub calls_while_pending: u64,
    /// Message of the first pending failure (the one that has to be reported).
    pub pending_msg: String,
    pub vectored_calls: u64,
}

pub struct Sink {
    script: SinkScript,
    idx: usize,
    log: Rc<RefCell<SinkLog>>,
}

impl Sink {
    pub fn new(script: SinkScript) -> (Sink, Rc<RefCell<SinkLog>>) {
        let log = Rc::new(RefCell::new(SinkLog::default()));
        (
            Sink {
                script,
                idx: 0,
                log: log.clone(),
            },
            log,
        )
    }
}

impl Write for Sink {
    fn write(&mut self, buf: &[u8]) -> io::Result<usize> {
        let step = if self.idx < self.script.steps.len() {
            self.script.steps[self.idx]
        } else {
            SinkStep::Accept(self.script.tail_accept.max(1))
        };
        self.idx += 1;
        let mut log = self.log.borrow_mut();
        log.calls += 1;
        if log.pending {
            log.calls_while_pending += 1;
        }
        if buf.is_empty() {
            log.empty_offers += 1;
        }
        let call = log.calls;
        match step {
            SinkStep::Accept(n) => {
                let n = (n.max(1) as usize).min(buf.len());
                log.received.extend_from_slice(&buf[..n]);
                Ok(n)
            }
            SinkStep::Intr => Err(io::Error::new(io::ErrorKind::Interrupted, "interrupted")),
            SinkStep::Zero => {
                if !buf.is_empty() {
                    log.failures += 1;
                    if !log.pending {
                        log.pending = true;
                        log.pending_msg = String::new(); // std reports WriteZero
                    }
                }
                Ok(0)
            }
            SinkStep::Fail(k) => {
                log.failures += 1;
                let msg = format!("{FAULT_MSG} (sink call {call})");
                if !log.pending {
                    log.pending = true;
                    log.pending_msg = msg.clone();
                }
                Err(io::Error::new(k.kind(), msg))
            }
            SinkStep::Panic => {
                drop(log);
                panic!("sink panicked on purpose");
            }
        }
    }
    /// A native vectored write (as pipes, sockets and files have): the scripted response applies
    /// to the concatenation of the slices, so a short write may end inside any of them.
    fn write_vectored(&mut self, bufs: &[io::IoSlice<'_>]) -> io::Result<usize> {
        let all: Vec<u8> = bufs.iter().flat_map(|b| b.iter().copied()).collect();
        self.log.borrow_mut().vectored_calls += 1;
        self.write(&all)
    }
    fn flush(&mut self) -> io::Result<()> {
        Ok(())
    }
}

#[derive(Serialize, Deserialize, Clone, Debug, PartialEq, Eq, Hash)]
pub enum Len {
    /// An absolute length.
    Abs(u32),
    /// Capacity minus the (mirrored) buffered amount plus delta: lands next to the buffer end.
    ToCapacity(i8),
}

#[derive(Serialize, Deserialize, Clone, Debug, PartialEq, Eq, Hash)]
pub enum WOp {
    Write(Len),
    WriteAll(Len),
    WriteAllDefer(Len),
    /// `write::text::ascii_digits` of the value `bits` truncated to integer type `ty` (index into
    /// props::c13::TYPES).
    Digits { ty: u8, bits: u128 },
    /// Fills the buffer until exactly `free` bytes are left (according to the mirrored buffering
    /// policy), then writes the integer: exercises the integer fast path next to the buffer end.
    DigitsNearEnd { free: u8, ty: u8, bits: u128 },
    /// `buf_write_ptr(len)`; when non-null, `fill` bytes (<= len) are written through the pointer
    /// and committed with `advance_unchecked(fill)`.
    BufPtr { len: u32, fill: u32 },
    Flush,
    FlushDefer,
    CheckIoError,
    // ---- C14 only ----
    /// `buf_write_ptr(len)` with an absurd length; the pointer is only inspected.
    BufPtrAbsurd(u8),
}

#[derive(Serialize, Deserialize, Clone, Debug, PartialEq, Eq, Hash)]
pub struct WHistory {
    pub ops: Vec<WOp>,
    pub sink: SinkScript,
    pub content_seed: u64,
    /// The writer is dropped while the thread unwinds from an unrelated panic (only with sinks
    /// that never panic themselves).
    #[serde(default)]
    pub unwind_drop: bool,
    /// Construct with `from_boxed_dyn_write` instead of `from_write`.
    #[serde(default)]
    pub boxed: bool,
}

/// Payload of the unrelated panic used for `unwind_drop`.
struct UnrelatedPanic;

#[derive(Default, Debug, Clone)]
pub struct WStats {
    pub crossed_capacity: u32,
    pub write_through: u32,
    pub sink_failures: u64,
    pub writes_between_failure_and_report: u32,
    pub reports: u32,
    pub total_written: usize,
    pub digits_near_end: u32,
    pub ptr_used: u32,
    pub sink_panics: u32,
    pub ops_after_panic: u32,
    pub absurd_ptr: u32,
    pub unwind_drops: u32,
    pub huge_slices: u32,
    pub short_write_results: u32,
    pub recovered_after_flush_report: u32,
}

#[derive(Clone, Copy, Debug)]
pub struct WOracles {
    /// C11: stream content, error reporting, sink call log.
    pub stream: bool,
    /// C14: pointer plausibility, no crash after caught sink panics.
    pub safety: bool,
}

fn content(seed: u64, start: usize, len: usize) -> Vec<u8> {
    // Position-dependent pseudo-random bytes: a pure function of (seed, absolute stream index), so
    // that a re-sent or reordered segment does not look like a later part of the stream.
    let mut v = Vec::with_capacity(len);
    for i in start..start + len {
        let mut x = (i as u64).wrapping_add(seed).wrapping_mul(0x9E37_79B9_7F4A_7C15);
        x ^= x >> 29;
        x = x.wrapping_mul(0xBF58_476D_1CE4_E5B9);
        x ^= x >> 32;
        v.push(x as u8);
    }
    v
}

fn digits_text(ty: u8, bits: u128) -> String {
    match crate::props::c13::TYPES[ty as usize % 12] {
        "i8" => (bits as i8).to_string(),
        "i16" => (bits as i16).to_string(),
        "i32" => (bits as i32).to_string(),
        "i64" => (bits as i64).to_string(),
        "i128" => (bits as i128).to_string(),
        "isize" => (bits as isize).to_string(),
        "u8" => (bits as u8).to_string(),
        "u16" => (bits as u16).to_string(),
        "u32" => (bits as u32).to_string(),
        "u64" => (bits as u64).to_string(),
        "u128" => bits.to_string(),
        _ => (bits as usize).to_string(),
    }
}

fn write_digits(w: &mut DeferredWriter, ty: u8, bits: u128) {
    use flussab::write::text::ascii_digits as d;
    match crate::props::c13::TYPES[ty as usize % 12] {
        "i8" => d(w, bits as i8),
        "i16" => d(w, bits as i16),
        "i32" => d(w, bits as i32),
        "i64" => d(w, bits as i64),
        "i128" => d(w, bits as i128),
        "isize" => d(w, bits as isize),
        "u8" => d(w, bits as u8),
        "u16" => d(w, bits as u16),
        "u32" => d(w, bits as u32),
        "u64" => d(w, bits as u64),
        "u128" => d(w, bits),
        _ => d(w, bits as usize),
    }
}

/// Greedy subsequence test; returns the index in `sub` of the first byte that cannot be matched.
fn subsequence_mismatch(sub: &[u8], full: &[u8]) -> Option<usize> {
    let mut j = 0;
    for (i, &b) in sub.iter().enumerate() {
        while j < full.len() && full[j] != b {
            j += 1;
        }
        if j == full.len() {
            return Some(i);
        }
        j += 1;
    }
    None
}

pub fn run_whistory(h: &WHistory, which: WOracles, prop: &str) -> Result<WStats, Failure> {
    let (sink, log) = Sink::new(h.sink.clone());
    let mut st = WStats::default();
    let mut w_stream: Vec<u8> = Vec::new(); // W: everything written so far
    let mut mirror_buffered = 0usize; // mirror of the documented buffering policy (generator aid only)
    let mut pending_failure = false; // a sink failure happened and has not been reported yet
    let mut calls_at_failure = 0u64;
    let mut ever_failed = false;
    let mut panicked = false;
    // (sink length, stream length) when the last failure was reported by `flush()`, provided no
    // failure happened since: from there on the sink must receive exactly what is written
    let mut clean_since: Option<(usize, usize)> = None;

    macro_rules! bad {
        ($what:expr, $($arg:tt)*) => {
            return Err(Failure::new(format!("{}:{}", prop, $what), format!($($arg)*)))
        };
    }

    {
        let mut w = if h.boxed {
            DeferredWriter::from_boxed_dyn_write(Box::new(sink))
        } else {
            DeferredWriter::from_write(sink)
        };
        for (i, op) in h.ops.iter().enumerate() {
            if panicked {
                st.ops_after_panic += 1;
            }
            let calls_before = log.borrow().calls;
            let failures_before = log.borrow().failures;
            let pending_before = pending_failure;
            let mut report: Option<io::Result<()>> = None;
            let mut wrote: Option<Vec<u8>> = None;
            let mut near_end_pad: Option<usize> = None;

            let resolve = |l: &Len, mirror: usize| -> usize {
                match l {
                    Len::Abs(n) => *n as usize,
                    Len::ToCapacity(d) => (CAPACITY - mirror.min(CAPACITY)).saturating_add_signed(*d as isize),
                }
            };

            let outcome = catch_unwind(AssertUnwindSafe(|| -> Result<(), Failure> {
                match op {
                    WOp::Write(l) | WOp::WriteAll(l) | WOp::WriteAllDefer(l) => {
                        let n = resolve(l, mirror_buffered);
                        if n >= 1 << 20 {
                            st.huge_slices += 1;
                        }
                        let mut bytes = content(h.content_seed, w_stream.len(), n);
                        match op {
                            WOp::Write(_) => match w.write(&bytes) {
                                Ok(k) if k == n => {}
                                // `Write::write` may take a prefix (never nothing of a non-empty
                                // slice, never more than offered): only that prefix was written
                                Ok(k) if k > 0 && k < n => {
                                    bytes.truncate(k);
                                    st.short_write_results += 1;
                                }
                                r => {
                                    return Err(Failure::new(
                                        format!("{prop}:write-result"),
                                        format!("step {i}: write of {n} bytes returned {r:?}"),
                                    ))
                                }
                            },
                            WOp::WriteAll(_) => {
                                if let Err(e) = w.write_all(&bytes) {
                                    return Err(Failure::new(
                                        format!("{prop}:write-result"),
                                        format!("step {i}: write_all of {n} bytes returned Err({e})"),
                                    ));
                                }
                            }
                            _ => w.write_all_defer_err(&bytes),
                        }
                        wrote = Some(bytes);
                    }
                    WOp::Digits { ty, bits } => {
                        write_digits(&mut w, *ty, *bits);
                        wrote = Some(digits_text(*ty, *bits).into_bytes());
                    }
                    WOp::DigitsNearEnd { free, ty, bits } => {
                        let pad = CAPACITY.saturating_sub(mirror_buffered.min(CAPACITY)).saturating_sub(*free as usize);
                        let mut bytes = content(h.content_seed, w_stream.len(), pad);
                        w.write_all_defer_err(&bytes);
                        write_digits(&mut w, *ty, *bits);
                        bytes.extend_from_slice(digits_text(*ty, *bits).as_bytes());
                        near_end_pad = Some(pad);
                        wrote = Some(bytes);
                    }
                    WOp::BufPtr { len, fill } => {
                        let len = *len as usize;
                        let fill = (*fill as usize).min(len);
                        let p = w.buf_write_ptr(len);
                        if !p.is_null() {
                            if len > CAPACITY {
                                return Err(Failure::new(
                                    format!("{prop}:buf-write-ptr-too-large"),
                                    format!("step {i}: buf_write_ptr({len}) returned a non-null pointer although the buffer holds {CAPACITY} bytes"),
                                ));
                            }
                            let bytes = content(h.content_seed, w_stream.len(), fill);
                            unsafe {
                                std::ptr::copy_nonoverlapping(bytes.as_ptr(), p, fill);
                                w.advance_unchecked(fill);
                            }
                            wrote = Some(bytes);
                            st.ptr_used += 1;
                        }
                    }
                    WOp::BufPtrAbsurd(k) => {
                        let len = match k % 4 {
                            0 => usize::MAX,
                            1 => usize::MAX - mirror_buffered.max(1) + 1,
                            2 => (isize::MAX as usize) + 1,
                            _ => usize::MAX - (*k as usize),
                        };
                        st.absurd_ptr += 1;
                        let p = w.buf_write_ptr(len);
                        if !p.is_null() {
                            return Err(Failure::new(
                                format!("{prop}:buf-write-ptr-absurd"),
                                format!("step {i}: buf_write_ptr({len}) returned a non-null pointer, i.e. claims {len} bytes of space"),
                            ));
                        }
                    }
                    WOp::Flush => report = Some(w.flush()),
                    WOp::FlushDefer => w.flush_defer_err(),
                    WOp::CheckIoError => report = Some(w.check_io_error()),
                }
                Ok(())
            }));
            match outcome {
                Ok(Ok(())) => {}
                Ok(Err(f)) => {
                    if which.stream || f.sig.contains("buf-write-ptr") {
                        return Err(f);
                    }
                }
                Err(p) => {
                    let msg = crate::engine::panic_message(&p);
                    if msg.contains("sink panicked on purpose") {
                        st.sink_panics += 1;
                        panicked = true;
                        continue;
                    }
                    // In checked builds an overflowing length computation panics instead of
                    // returning a bogus pointer; that is safe behaviour for C14, but for C11 an
                    // in-contract operation must not panic.
                    if matches!(op, WOp::BufPtrAbsurd(_)) {
                        continue;
                    }
                    bad!("panic", "step {} {:?} panicked: {}", i, op, msg);
                }
            }
            if let (Some(bytes), Some(pad)) = (&wrote, near_end_pad) {
                // two writes: the padding (fits by construction), then the digits
                let digits = bytes.len() - pad;
                mirror_buffered += pad;
                if mirror_buffered + digits <= CAPACITY {
                    mirror_buffered += digits;
                } else {
                    st.crossed_capacity += 1;
                    mirror_buffered = digits.saturating_sub(CAPACITY.saturating_sub(mirror_buffered));
                }
                st.digits_near_end += 1;
                if pending_failure {
                    st.writes_between_failure_and_report += 1;
                }
                w_stream.extend_from_slice(bytes);
                st.total_written += bytes.len();
            } else if let Some(bytes) = &wrote {
                // mirror of the buffering policy
                let n = bytes.len();
                if matches!(op, WOp::BufPtr { .. }) {
                    mirror_buffered += n;
                } else if mirror_buffered + n <= CAPACITY {
                    mirror_buffered += n;
                    if matches!(op, WOp::Digits { .. }) && mirror_buffered + 40 > CAPACITY {
                        st.digits_near_end += 1;
                    }
                } else {
                    st.crossed_capacity += 1;
                    if n < CAPACITY {
                        mirror_buffered = n.saturating_sub(CAPACITY.saturating_sub(mirror_buffered));
                    } else {
                        mirror_buffered = 0;
                        st.write_through += 1;
                    }
                }
                if pending_failure {
                    st.writes_between_failure_and_report += 1;
                }
                w_stream.extend_from_slice(bytes);
                st.total_written += n;
            }
            if matches!(op, WOp::Flush | WOp::FlushDefer) {
                mirror_buffered = 0;
            }
            if panicked || !which.stream {
                continue;
            }
            let l = log.borrow();
            // A sink failure during this step?
            let failed_now = l.failures > failures_before;
            if failed_now {
                st.sink_failures += l.failures - failures_before;
                if !ever_failed {
                    // Everything the sink accepted before the first failure is an exact prefix.
                    if l.received.len() > w_stream.len() || l.received[..] != w_stream[..l.received.len()] {
                        bad!(
                            "prefix-before-failure",
                            "step {} {:?}: the {} bytes accepted before the first sink failure are not a prefix of the written stream",
                            i,
                            op,
                            l.received.len()
                        );
                    }
                }
                ever_failed = true;
                pending_failure = true;
                calls_at_failure = l.calls;
                clean_since = None;
            }
            if pending_before && l.calls != calls_before {
                bad!(
                    "sink-called-while-error-parked",
                    "step {} {:?}: the sink was called {} time(s) between a failure and its report",
                    i,
                    op,
                    l.calls - calls_before
                );
            }
            if pending_failure && !failed_now && l.calls != calls_at_failure {
                bad!("sink-called-while-error-parked", "step {} {:?}: sink called after the failure", i, op);
            }
            if l.calls_while_pending != 0 {
                bad!(
                    "sink-called-while-error-parked",
                    "step {} {:?}: the sink was called {} time(s) after it had failed and before that failure was reported",
                    i,
                    op,
                    l.calls_while_pending
                );
            }
            if let Some(r) = &report {
                match (r, pending_failure) {
                    (Err(e), true) => {
                        let ok = if l.pending_msg.is_empty() {
                            e.kind() == io::ErrorKind::WriteZero
                        } else {
                            e.to_string() == l.pending_msg
                        };
                        if !ok {
                            bad!(
                                "wrong-error",
                                "step {} {:?}: reported {:?}, but the sink's (first unreported) failure was {:?}",
                                i,
                                op,
                                e.to_string(),
                                l.pending_msg
                            );
                        }
                        st.reports += 1;
                        pending_failure = false;
                        if matches!(op, WOp::Flush) {
                            // flush() empties the buffer whatever happens: "any data written after
                            // an IO error occured, before it is eventually reported, will be discarded"
                            clean_since = Some((l.received.len(), w_stream.len()));
                        }
                        drop(l);
                        log.borrow_mut().pending = false;
                        continue;
                    }
                    (Ok(()), false) => {
                        if !ever_failed && matches!(op, WOp::Flush) && l.received != w_stream {
                            let at = l
                                .received
                                .iter()
                                .zip(w_stream.iter())
                                .position(|(a, b)| a != b)
                                .unwrap_or(l.received.len().min(w_stream.len()));
                            bad!(
                                "stream-after-flush",
                                "step {} flush() returned Ok but the sink holds {} bytes, {} were written; first difference at byte {}",
                                i,
                                l.received.len(),
                                w_stream.len(),
                                at
                            );
                        }
                    }
                    (Err(e), false) => bad!(
                        "spurious-error",
                        "step {} {:?}: returned Err({}) although no sink failure is outstanding (reported twice?)",
                        i,
                        op,
                        e
                    ),
                    (Ok(()), true) => bad!(
                        "error-not-reported",
                        "step {} {:?}: returned Ok although the sink failed before and the failure has not been reported",
                        i,
                        op
                    ),
                }
            }
            if matches!(op, WOp::FlushDefer) && !ever_failed && l.received != w_stream {
                bad!(
                    "stream-after-flush",
                    "step {} flush_defer_err(): sink holds {} bytes, {} were written",
                    i,
                    l.received.len(),
                    w_stream.len()
                );
            }
        }
        // drop
        let calls_before = log.borrow().calls;
        let failures_before = log.borrow().failures;
        let unwind = h.unwind_drop && !h.sink.steps.iter().any(|s| matches!(s, SinkStep::Panic));
        let dropped = catch_unwind(AssertUnwindSafe(move || {
            if unwind {
                let _w = w;
                // resume_unwind does not run the panic hook; thread::panicking() is true while
                // `_w` is dropped
                std::panic::resume_unwind(Box::new(UnrelatedPanic));
            } else {
                drop(w)
            }
        }));
        let dropped = match dropped {
            Err(p) if p.is::<UnrelatedPanic>() => {
                st.unwind_drops += 1;
                Ok(())
            }
            other => other,
        };
        if let Err(p) = dropped {
            let msg = crate::engine::panic_message(&p);
            if !msg.contains("sink panicked on purpose") {
                bad!("panic", "drop panicked: {}", msg);
            }
            st.sink_panics += 1;
            panicked = true;
        }
        if which.stream && !panicked {
            let l = log.borrow();
            if (pending_failure && l.calls != calls_before) || l.calls_while_pending != 0 {
                bad!("sink-called-while-error-parked", "drop called the sink although an unreported failure is parked");
            }
            if l.failures > failures_before {
                st.sink_failures += l.failures - failures_before;
                ever_failed = true;
                clean_since = None;
            }
        }
    }
    if let Some((_, p)) = clean_since {
        if w_stream.len() > p {
            st.recovered_after_flush_report += 1;
        }
    }
    if which.stream && !panicked {
        let l = log.borrow();
        if !ever_failed {
            if l.received != w_stream {
                let at = l
                    .received
                    .iter()
                    .zip(w_stream.iter())
                    .position(|(a, b)| a != b)
                    .unwrap_or(l.received.len().min(w_stream.len()));
                bad!(
                    "stream-after-drop",
                    "after drop the sink holds {} bytes but {} were written; first difference at byte {}",
                    l.received.len(),
                    w_stream.len(),
                    at
                );
            }
        } else if let Some((r, p)) = clean_since.filter(|(r, p)| l.received.len() >= *r && w_stream.len() >= *p && l.received[*r..] != w_stream[*p..]) {
            bad!(
                "stale-data-after-reported-error",
                "a failure was reported by flush() when the sink held {} bytes and {} bytes had been written; the {} bytes written afterwards arrived as {} bytes (data written before the report was not discarded, or later data was lost)",
                r,
                p,
                w_stream.len() - p,
                l.received.len() - r
            );
        } else if let Some(i) = subsequence_mismatch(&l.received, &w_stream) {
            bad!(
                "not-a-selection",
                "the {} bytes the sink received are not an in-order selection of the {} written bytes (received byte {} cannot be matched: duplicated or reordered data)",
                l.received.len(),
                w_stream.len(),
                i
            );
        }
        if l.empty_offers > 0 && false {
            bad!("empty-offer", "sink was offered an empty slice");
        }
    }
    Ok(st)
}

pub fn classify(h: &WHistory, st: &WStats, obs: &mut Obs) {
    obs.class_if(st.crossed_capacity > 0, "crossed-capacity");
    obs.class_if(st.write_through > 0, "write-through");
    obs.class_if(st.sink_failures > 0, "sink-failed");
    obs.class_if(st.sink_failures > 1, "sink-failed-twice");
    obs.class_if(st.writes_between_failure_and_report > 0, "writes-between-failure-and-report");
    obs.class_if(st.reports > 0, "error-reported");
    obs.class_if(st.recovered_after_flush_report > 0, "writes-after-error-reported-by-flush");
    obs.class_if(st.digits_near_end > 0, "digits-near-buffer-end");
    obs.class_if(st.ptr_used > 0, "buf-write-ptr-used");
    obs.class_if(st.sink_panics > 0, "sink-panicked");
    obs.class_if(st.absurd_ptr > 0, "absurd-ptr-request");
    obs.class_if(st.unwind_drops > 0, "dropped-while-unwinding");
    obs.class(if h.boxed { "ctor/from_boxed_dyn_write" } else { "ctor/from_write" });
    obs.class_if(st.huge_slices > 0, "slice>=1MiB");
    obs.class_if(st.short_write_results > 0, "write-took-a-prefix");
    let short = h.sink.tail_accept < 100_000
        || h.sink.steps.iter().any(|s| matches!(s, SinkStep::Accept(n) if *n < 100_000));
    obs.class_if(short, "short-writes");
    obs.class_if(h.sink.steps.iter().any(|s| matches!(s, SinkStep::Intr)), "sink-interrupted");
    obs.class_if(h.sink.steps.iter().any(|s| matches!(s, SinkStep::Zero)), "sink-zero");
}

fn len_strategy() -> impl Strategy<Value = Len> {
    prop_oneof![
        10 => (0u32..=64).prop_map(Len::Abs),
        3 => (65u32..=3000).prop_map(Len::Abs),
        3 => (-3i8..=3).prop_map(Len::ToCapacity),
        1 => prop_oneof![
            Just(CAPACITY as u32 - 1),
            Just(CAPACITY as u32),
            Just(CAPACITY as u32 + 1),
            Just(3 * CAPACITY as u32),
            (5000u32..=40000)
        ]
        .prop_map(Len::Abs),
        // one slice of megabytes (1 in ~350 lengths; each costs ~10 ms)
        1 => prop_oneof![
            20 => (-3i8..=3).prop_map(Len::ToCapacity),
            1 => prop_oneof![Just(1u32 << 20), Just((1 << 20) + 1), Just(3 << 20), (1u32 << 20)..=(7 << 19)].prop_map(Len::Abs),
        ],
    ]
}

fn bits_strategy() -> impl Strategy<Value = u128> {
    prop_oneof![
        2 => Just(0u128),
        2 => Just(u128::MAX),                      // -1 / MAX of unsigned
        2 => (0u32..128).prop_map(|k| 1u128 << k), // MIN of the signed type of that width, powers of two
        2 => (0u32..128).prop_map(|k| (1u128 << k) - 1), // MAX of signed types
        2 => (0u32..39).prop_map(|k| 10u128.pow(k)),
        2 => (0u32..39).prop_map(|k| (10u128.pow(k)).wrapping_neg()),
        3 => any::<u128>(),
        2 => any::<u32>().prop_map(|v| v as u128),
    ]
}

pub fn wop_strategy(hostile: bool) -> BoxedStrategy<WOp> {
    let base = prop_oneof![
        4 => len_strategy().prop_map(WOp::Write),
        4 => len_strategy().prop_map(WOp::WriteAll),
        4 => len_strategy().prop_map(WOp::WriteAllDefer),
        6 => (0u8..12, bits_strategy()).prop_map(|(ty, bits)| WOp::Digits { ty, bits }),
        2 => (0u8..=42, 0u8..12, bits_strategy(), 0u8..8).prop_map(|(free, ty, bits, rel)| {
            // half of the time the free space is the text length (or the type's maximal text
            // length) give or take one
            let len = digits_text(ty, bits).len() as u8;
            let max_len = [4u8, 6, 11, 20, 40, 20, 3, 5, 10, 20, 39, 20][ty as usize % 12];
            let free = match rel {
                0 => len.saturating_sub(1),
                1 => len,
                2 => len + 1,
                3 => max_len.saturating_sub(1),
                4 => max_len,
                _ => free,
            };
            WOp::DigitsNearEnd { free, ty, bits }
        }),
        2 => (0u32..=200, 0u32..=200).prop_map(|(len, fill)| WOp::BufPtr { len, fill }),
        1 => (prop_oneof![Just(CAPACITY as u32), Just(CAPACITY as u32 + 1), (15000u32..=17000)], 0u32..=40)
            .prop_map(|(len, fill)| WOp::BufPtr { len, fill }),
        2 => Just(WOp::Flush),
        1 => Just(WOp::FlushDefer),
        2 => Just(WOp::CheckIoError),
    ];
    if hostile {
        prop_oneof![10 => base, 1 => any::<u8>().prop_map(WOp::BufPtrAbsurd)].boxed()
    } else {
        base.boxed()
    }
}

pub fn sink_strategy(hostile: bool) -> impl Strategy<Value = SinkScript> {
    let tail = prop_oneof![
        4 => Just(u32::MAX),
        1 => Just(1u32),
        1 => Just(7u32),
        1 => Just(1000u32),
        1 => Just(5000u32),
    ];
    let step = prop_oneof![
        8 => prop_oneof![
            4 => Just(u32::MAX),
            4 => Just(1u32),
            4 => Just(7u32),
            4 => Just(1000u32),
            4 => Just(5000u32),
            4 => 1u32..=20000,
            1 => Just(1u32 << 20),
            1 => Just(3u32 << 19)
        ]
        .prop_map(SinkStep::Accept),
        2 => Just(SinkStep::Intr),
    ];
    let failing = prop_oneof![
        4 => errkind_strategy().prop_map(SinkStep::Fail),
        1 => Just(SinkStep::Zero),
    ];
    let panic_w = if hostile { 2 } else { 0 };
    (
        proptest::collection::vec(step, 0..8),
        tail,
        // failures: none, one at a generated call index, or two
        prop_oneof![
            5 => Just(vec![]),
            4 => (0usize..10, failing.clone()).prop_map(|(k, f)| vec![(k, f)]),
            2 => (0usize..6, failing.clone(), 0usize..6, failing).prop_map(|(a, f, b, g)| vec![(a, f), (a + 1 + b, g)]),
            panic_w => (0usize..6).prop_map(|k| vec![(k, SinkStep::Panic)]),
        ],
    )
        .prop_map(|(mut steps, tail_accept, fails)| {
            for (k, f) in fails {
                while steps.len() < k {
                    steps.push(SinkStep::Accept(tail_accept));
                }
                steps.insert(k, f);
            }
            SinkScript { steps, tail_accept }
        })
}

pub fn whistory_strategy(max_ops: usize, hostile: bool) -> impl Strategy<Value = WHistory> {
    (
        proptest::collection::vec(wop_strategy(hostile), 0..max_ops),
        sink_strategy(hostile),
        any::<u64>(),
        proptest::bool::weighted(0.15),
        proptest::bool::weighted(0.3),
    )
        .prop_map(|(ops, sink, content_seed, unwind_drop, boxed)| WHistory {
            ops,
            sink,
            content_seed,
            unwind_drop,
            boxed,
        })
}

#![no_main]
//! libFuzzer target: bytes are decoded into a structured case by flussab_verif::fuzzdec and run
//! through the same oracles as the proptest harness (selected with FV_FUZZ_ORACLES).
use libfuzzer_sys::fuzz_target;

fuzz_target!(|data: &[u8]| {
    flussab_verif::fuzzdec::fuzz_writer_ops(data);
});
